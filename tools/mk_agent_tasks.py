import json, re, sys, os, subprocess
wave = sys.argv[1]          # e.g. w5
props = {}
for l in open('/verif/properties.jsonl'):
    p = json.loads(l); props[p['id']] = p
ideas = {}
for l in open('/verif/DESIGN.md'):
    m = re.match(r'\| agent-(c\d\d)(w\d)?-[ab] \| (C\d\d) \| (.*?) \| yes \|', l)
    if m:
        ideas.setdefault(m.group(3), []).append(m.group(4))
extra = json.load(open('/tmp/wt/extra_ideas.json')) if os.path.exists('/tmp/wt/extra_ideas.json') else {}
ids = sys.argv[2:]
for pid in ids:
    p = props[pid]
    key = f"{pid}{wave}"
    wt = f"/tmp/wt/{key}"
    if not os.path.isdir(wt):
        subprocess.run(["git", "-C", "/repo", "worktree", "add", "--detach", wt, "HEAD"], check=True, capture_output=True)
        subprocess.run(f"cp /repo/aldy/indelpost/*.so {wt}/aldy/indelpost/", shell=True, check=True)
    os.makedirs(f"{wt}-out/A", exist_ok=True); os.makedirs(f"{wt}-out/B", exist_ok=True)
    anchors = p.get('anchors', {})
    mech = "\n".join(f"  - {m['name']}: {m['where']}" for m in anchors.get('mechanism', []))
    obs = "\n".join(f"  - {o}" for o in anchors.get('observe_at', []))
    prev = "\n".join(f"  - {x}" for x in ideas.get(pid, []) + extra.get(pid, []))
    txt = f"""# Task: write two changes to aldy that break one property

You work in a scratch git worktree of the open-source project 0xTCG/aldy (a pharmacogene
star-allele genotyper: reads SAM/BAM/VCF, solves three ILP stages - copy number, major alleles,
minor alleles - through OR-Tools CBC) at

    {wt}

Use only this directory and {wt}-out/ . Do NOT read, write or look into /repo or /verif
(other people work there), and do not create files anywhere else except short-lived temporary
files that you delete again.  Python: /venv/bin/python (3.12; aldy's dependencies are installed;
there is no network).  IMPORTANT: /venv has aldy installed in editable mode from another directory, so
every script you write must start with `import sys; sys.path.insert(0, "{wt}")` before importing
aldy and should `assert aldy.__file__.startswith("{wt}/")`.
The test-suite: `cd {wt} && /venv/bin/python -m pytest -q -p no:cacheprovider --timeout=900 -n 6`
(77 tests, roughly 4-8 minutes; run it in the worktree, pytest picks up the worktree's aldy because of the rootdir).
(line numbers quoted below may be off by a few lines: the tree has had small fixes since they were written.)

## The property

**{pid}: {p.get('title','')}**

{p['statement']}

Quantifier: {p['quantifier']['text']}

Why the existing tests cannot settle it: {p['why_tests_cant']}

Where it lives:
{mech}
Observe at:
{obs}

## What to deliver

TWO independent changes, A and B, to the aldy sources (files under {wt}/aldy/, Python only - do not
touch the tests, the Cython sources or the data files).  Each change must

1. break the property above (some input / configuration / history / solver behaviour exists for which
   the statement is false with the change and true without it);
2. still import and pass the whole existing test-suite, unedited (run it - all 77 must pass);
3. look like something a developer could plausibly have written (a refactoring, an optimisation, a
   "simplification", a cache, an off-by-one, a changed default, a re-ordered statement) - not a
   `if input == magic` special case;
4. need something SPECIFIC to manifest: a particular multi-step sequence of operations in one process,
   state carried from an earlier call, a particular solver tie / alternative optimum, a fault or error
   path, an unusual but legal input shape, a particular environment (hash seed, order of inputs), or
   two cooperating sites that each look fine alone.  Not something ordinary use would expose at once.
5. be different in kind from each other and from the ideas that earlier rounds already used:
{prev}

For each change X in (A, B) write into {wt}-out/X/ :

* `patch.diff` - `git diff` of the worktree against HEAD with only that change (must apply with
  `git apply` to a clean worktree);
* `demo.py` - a self-contained program, run as `/venv/bin/python {wt}-out/X/demo.py` with the
  worktree as current directory, that exercises the property directly: it prints `FAIL` and exits
  non-zero when run on the tree WITH the change, and prints `PASS` and exits 0 on the clean tree.
  It must judge by the property's statement (not by comparing against output recorded from the clean tree),
  run in under two minutes, and clean up its temporary files;
* `README.md` - ten to thirty lines: what was changed, which clause of the property breaks, and what is
  needed for it to show.

Work on one change at a time and leave the worktree clean (`git checkout -- .`) at the end.
Verify yourself: tests pass with the change; demo FAILs with it; demo PASSes without it.

## Also report

While reading the code you may notice behaviour of the UNMODIFIED code that contradicts the property
(a genuine defect).  If so, describe it at the end of your answer under "Observations about the
unmodified code" with a concrete input that shows it.  Keep the final answer short: for each change one
paragraph (what, clause, what it needs), the test result line, and the observations.
"""
    open(f"/tmp/wt/{key}-task.md", "w").write(txt)
    print(key, len(txt))

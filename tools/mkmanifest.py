#!/usr/bin/env python3
"""Regenerates /verif/MANIFEST.json from the table below (single source of truth)."""
import json
import os

VERIF = os.path.dirname(os.path.dirname(os.path.abspath(__file__)))

CLAIMED = {
    "C14": dict(
        category="exploration",
        technique="deterministic simulation: hash-seeded process segments with restarts, multi-operation session histories, fake clock, cwd/TMPDIR variation; reference = same operation alone in a pristine hash-seed-0 interpreter",
        text="Seeded search over sessions of 2-6 operations (genotype, multi-gene run with a failing gene, stage calls, "
             "every public accessor, both writers, query, minor stage under permuted / sub-setted candidate lists, "
             "--debug run, exome-route run; shipped NA10860 / VCF / dump material in the thorough tier) executed in "
             "process segments with plan-chosen PYTHONHASHSEED, restarts, clock jumps, cwd and "
             "TMPDIR; every operation is compared with the same operation executed alone in a fresh hash-seed-0 "
             "interpreter and the catalogue / evidence renderings are compared before and after. Sampling, not proof: "
             "the space of histories x hash seeds x worlds is unbounded.",
        note="Trusted: the canonical renderings (aldysim/canon.py), the world generator, fork-from-zygote == cold "
             "interpreter (self-tested every run). Scores compared with aldy's own SOLUTION_PRECISION; log and query text "
             "not compared. Hash order reachable only through PYTHONHASHSEED.",
        design="DESIGN.md section 4 (C14)",
    ),
    "C05": dict(
        category="fault_enumeration",
        technique="deterministic simulation of the solver boundary: adversarial optimal-vertex choice, integrality jitter and exhaustive fault enumeration (7 fault kinds x every solve index) against a brute-force reference model",
        text="Random small models of aldy's shape are built through lpinterface.model() and enumerated under plain CBC, "
             "under an adversarial solver that returns another optimal vertex (real re-solve on the optimal face), under "
             "integrality jitter, and with every fault kind injected at every solve index of the enumeration; every "
             "yielded item is judged against enumeration of all binary assignments. prod / abssum helpers are checked "
             "exhaustively for 1-4 operands. Systematic symmetric tie families (non-dyadic constants, both constraint "
             "orientations), models that keep being built after a first enumeration, and two enumerations consumed in "
             "lock-step are included; sums written with repeated entries and constants, a general integer variable, and "
             "enumerations of 250-1700 co-optimal solutions (some with only 120-300 stack frames left: the recursion "
             "limit is a resource of the environment) as well; a process abort inside the solver library is a verdict. "
             "Models aldy itself builds "
             "are monitored at the seam. Fault points are enumerated completely per model; models are sampled.",
        note="Trusted: CBC's answer is only ever judged against the brute-force table (<= 8 base binaries); the "
             "generator-known closed form of the continuous part; tolerance 1e-4. 'Agrees with independent solvers' is "
             "not decided (no second MILP solver offline).",
        design="DESIGN.md section 4 (C05)",
    ),
}

CLAIMED.update({
    "C10": dict(
        category="fault_enumeration",
        technique="deterministic simulation: solver status / verification faults enumerated over every solve index of a genotype() call, adversarial optimum choice, hash seeds; oracle recomputes the selection rule from the recorded stage history",
        text="For sampled generated workloads with competing structures and major solutions, a fault-free pilot counts "
             "the solves of genotype(); then every fault kind (INFEASIBLE, ABNORMAL, NOT_SOLVED, non-optimal FEASIBLE "
             "incumbent, failed verification) is injected at every solve index (first 40), one per run. For every run the "
             "recorded returns of estimate_cn / estimate_major / solve_minor_model / estimate_minor are re-evaluated: "
             "carried-over scores (also the carry-over inside the minor stage), gap filter, one major call per structure, "
             "order, chain consistency, and the error / output behaviour when a stage returns nothing. Every other plan "
             "scripts the three model solvers instead (simulator-made well-formed candidates with plan-chosen scores: "
             "exact ties, scores around the gap boundary, large scores with small differences, twins differing in their "
             "novel variants, empty returns), half of the runs with report=True as the command line does; aldy's "
             "estimate_* / genotype() code selects among them and is judged by the same oracle.",
        note="Trusted: the recording wrappers; the oracle is relative to the stage returns (their optimality is C02-C05). "
             "Boundary band 1e-4 around gap + precision. Fault points enumerated completely per workload, workloads sampled.",
        design="DESIGN.md section 4 (C10)",
    ),
    "C17": dict(
        category="exploration",
        technique="deterministic simulation of a write -> process restart -> read history through the real CLI: different hash seed, cwd, TMPDIR and clock on the reading side; solver / disk-full / failing-gene faults after the dump exists",
        text="Seeded two-segment histories: `aldy genotype <bam> --debug` in one interpreter, `aldy genotype <archive>` in "
             "another with a different PYTHONHASHSEED, cwd, TMPDIR and clock, per gene or for all genes of the archive; "
             "faults in the writing segment after the dump was written; the exome / wxs / wes route on a database the "
             "shipped profile knows; one-process histories that reuse a debug name for the other genome build; samples with "
             "pseudogene-private deletions, neutral regions wider than the reads, down-sampled phase records; the shipped "
             "NA10860 BAMs in the thorough tier. Environment choices of the writing side: the archive's member order "
             "(directory order), gene names that are prefixes of each other, an alignment header the build detection does "
             "not recognise, uneven read qualities, ultra-deep samples (thorough). The replayed results, scores (1e-2) and output bytes must equal a "
             "fault-free direct run on the alignments. Sampling of worlds, parameters and faults.",
        note="Trusted: recording wrapper around aldy.__main__.genotype; canonical renderings. Torn archives are out of scope "
             "(statement is silent).",
        design="DESIGN.md section 4 (C17)",
    ),
    "C19": dict(
        category="fault_enumeration",
        technique="deterministic simulation: data-loss faults on the alignment stream (container writer and AlignmentFile seam) enumerated over loss kind x profile route x output format x single/multi-gene",
        text="The full applicable grid of 16 loss kinds (gene locus, locus with a decoy contig in an unindexed "
             "text SAM, a sliver of the locus, gene only, neutral region empty / nearly empty, empty file, depth below "
             "/ above the configured minimum by 10 % and by 0.003, the gene's chromosome missing from the header, locus "
             "spanned only by reference skips, read error at the k-th record, records dropped at the stream seam) x 4 "
             "routes (profile YAML, BAM as profile, user-supplied structure, user-supplied structure through a debug archive "
             "written and replayed) x 4 output formats x single / multi-gene is walked, half of the plans after a warm-up "
             "history in the same process (healthy run with the same file name, or an exome-route run); worlds are sampled. "
             "Oracle: Aldy error, no call, no allele rows, exact empty simple line, healthy companion gene unchanged, "
             "pseudogene-only = two deletions, just-above = call, a read error surfaces as such.",
        note="Trusted: the world generator's read layout (which reads belong to the locus). Two cells of the statement are "
             "not combined with a user-supplied structure because the statement does not settle them (DESIGN.md).",
        design="DESIGN.md section 4 (C19)",
    ),
    "C18": dict(
        category="exploration",
        technique="deterministic simulation of multi-invocation histories (profile written with parameters -> process restart with another hash seed -> loaded; CLI / API / options section / options+explicit / debug-archive routes) against a typed reference parameter table",
        text="Seeded plans choose 1-5 documented parameters, a spelling the statement allows (string in any letter case, "
             "1/0, native bool / int / float), a route out of seven, optionally an unknown name or a malformed value. "
             "The Profile object the run actually used is read at the stage seam (or the written YAML is parsed back in "
             "another process) and compared, value and type, with a reference table applying 'explicit beats options "
             "section beats default'. Histories: an earlier version of the same profile file loaded first, an earlier "
             "`aldy profile` call in the same process, an options section together with a user-supplied structure, an "
             "empty options section. Sampling over (route x parameter x spelling).",
        note="Trusted: the reference table (PARAMS in c18.py mirrors the documented attributes of aldy.profile.Profile). "
             "Ambiguous cases the statement does not settle are not generated.",
        design="DESIGN.md section 4 (C18)",
    ),
    "C02": dict(
        category="exploration",
        technique="deterministic simulation of the solver's choice: adversarial optimal-vertex selection at every solve, integrality jitter, status faults; independent objective evaluator + brute force over allele multisets as reference model",
        text="Stage-level calls of estimate_major() on the toy gene, generated databases (and shipped genes in the thorough "
             "tier) with planted, noisy and wild read-count tables; each case is solved under plain CBC, under several "
             "adversary sub-seeds, under jitter and with one status fault. Every reported combination, whichever optimum "
             "was drawn, is judged by an independent evaluator (configuration counts, carried XOR novel, one novel per "
             "site, score = fit error + novelty penalties) and the reported set is compared with brute force over all "
             "allele multisets (optimality, completeness within the gap, no repeats).",
        note="Trusted: aldy's own evidence filter is taken as the evidence (filters belong to C15); two constants the "
             "statement does not name (0.1 per novel variant, profile.major_novel). Instances beyond 60000 multisets are "
             "only cross-checked between adversary seeds.",
        design="DESIGN.md section 4 (C02-C04)",
    ),
    "C03": dict(
        category="exploration",
        technique="deterministic simulation of the solver's choice (adversarial optimum, jitter, status faults); independent evaluator of the documented objective minimised over internal slot assignments + brute force over configuration multisets",
        text="solve_cn_model() / estimate_cn() on depth vectors planted from 0-4 configurations with additive noise on a "
             "0.01 grid, maximum copy number 3-6, gap 0 / 0.1 / 0.3, optional long-read fusion support; every reported "
             "structure under every solver behaviour is judged for well-formedness and its score recomputed as the best "
             "explanation of that structure; optimality and the containment rule are decided against enumeration of all "
             "configuration multisets; configuration clauses (verbatim user structure, unknown names, default copies) "
             "are exercised directly.",
        note="Trusted: the evaluator's reading of the documented objective (constants listed in the evidence assumptions).",
        design="DESIGN.md section 4 (C02-C04)",
    ),
    "C04": dict(
        category="exploration",
        technique="deterministic simulation of the solver's choice over the optimal face of the minor model (adversary), jitter, status faults; rules 1-6 + independent objective evaluator + brute force over (minor x kept x added) on tiny instances",
        text="estimate_minor() on 1-3 copy major solutions over the toy gene and generated databases, with planted, "
             "noisy, wild, edited (variant lost / gained) and homozygous evidence, with and without phase records. The "
             "minor stage keeps one optimum, so the adversary makes 'every reported refinement' range over the optimal "
             "face: rules 1-6 are evaluated on each, the score is recomputed (read-phase term included), the optimum value must agree "
             "across adversary seeds and with exhaustive enumeration on tiny instances.",
        note="Trusted: evidence filters re-applied through aldy's Coverage.filtered; tie-breaker bound used as tolerance; "
             "read-phase term re-implemented except for the model's down-sampling of phase patterns (those cases: rules + "
             "cross-adversary agreement only).",
        design="DESIGN.md section 4 (C02-C04)",
    ),
    "C06": dict(
        category="exploration",
        technique="deterministic simulation of record delivery (container, index visibility, order, CIGAR run splitting, interleaved ineligible records, read error at the k-th record) against an independent CIGAR interpreter as reference model",
        text="Random read sets (CIGAR over M,=,X,I,D,S,H; secondary / supplementary / duplicate / unmapped flags; "
             "qualities at the bin edges; shared fragment names; complete and partial MNPs) are delivered seven ways and "
             "once with a read error; aldy's coverage table and phase records are compared cell by cell with the "
             "reference interpreter and across deliveries. htslib's pileup cross-checks the reference model.",
        note="Trusted: the reference interpreter (cross-checked against htslib pileup every run). Indel evidence from "
             "indelpost is excluded (DESIGN.md).",
        design="DESIGN.md section 4 (C06)",
    ),
    "C07": dict(
        category="exploration",
        technique="deterministic simulation: k-fold duplicate delivery at the stream seam, gene-only multiplication by the container writer, profile -> genotype two-process history (BAM and aldy-written YAML hand-over, different hash seeds), index / order variation, neutral-region loss",
        text="For sampled worlds the profile sample is normalised against its own profile through both hand-over routes "
             "(must read exactly 2.0), a planted sample is measured, re-measured with every record delivered k times "
             "(invariant, same structure), with gene records x k (linear), through another delivery path (equal) and "
             "without neutral reads (rejected).",
        note="Trusted: exact-tiling read simulator. The approximate NA10860 clause is not decided.",
        design="DESIGN.md section 4 (C07)",
    ),
    "C01": dict(
        category="exploration",
        technique="deterministic simulation: planted error-free samples genotyped end to end while an adversarial solver returns another optimal vertex at every solve, with permuted delivery at the stream seam and varying hash seeds; oracle = planted genotype + variant-multiset conservation, precondition evaluated on the recorded structure stage",
        text="Generated consistent databases (both strands, with / without pseudogene; SNP, MNP, insertion, deletion "
             "alleles; extra copies, whole-gene deletion, left / right fusion) and planted haplotype multisets are turned "
             "into exact-tiling reads (length 50-250, >= 20x per copy) and genotyped against a simulated two-copy "
             "reference profile. The adversary makes 'every best solution' range over the optimal faces of all three "
             "stages; in a third of the plans the realigner's query for one catalogued indel the sample does not carry "
             "is made to fail (fault injection at the third-party boundary), and where the reads' tiling starts is chosen "
             "so that reads end inside a catalogued site. Sampling of (database x multiset x read layout x solver choice).",
        note="Trusted: the read simulator and the sequence-level variant conventions in aldysim/world.py (self-validated "
             "against the loaded catalogue). Shipped genes are not simulated.",
        design="DESIGN.md section 4 (C01)",
    ),
})

NA = {
    "C08": "pure function of the database text (coordinate conversion): no schedule, fault, clock, history or solver choice can reach it; deciding it is exhaustive input comparison, not simulation (DESIGN.md section 5)",
    "C09": "catalogue construction is a pure function of the database text; only its stability across hash seeds and histories is environment-dependent and that part is checked under C14",
    "C11": "estimate_diplotype is a pure function of the solution list; 'every permutation order' is input enumeration",
    "C12": "the two writers are pure functions of (solutions, gene, coverage) into a stream; no fault, restart or second aldy operation in the statement; byte-level repeatability is covered by C14",
    "C13": "metamorphic relation between two inputs (builds / strands) of a pure pipeline; the solver dimension could only weaken, never decide it",
    "C15": "metamorphic relation on evidence tables over pure filter code; no simulator-owned choice reaches it",
    "C16": "VCF-record to evidence conversion is a pure function of the records; tabix delivers them in file order, so there is no delivery choice to own",
}

PENDING = {
    "C01": "designed (DESIGN.md section 4), check not built yet",
    "C02": "designed (DESIGN.md section 4), check not built yet",
    "C03": "designed (DESIGN.md section 4), check not built yet",
    "C04": "designed (DESIGN.md section 4), check not built yet",
    "C06": "designed (DESIGN.md section 4), check not built yet",
    "C07": "designed (DESIGN.md section 4), check not built yet",
    "C10": "designed (DESIGN.md section 4), check not built yet",
    "C17": "designed (DESIGN.md section 4), check not built yet",
    "C18": "designed (DESIGN.md section 4), check not built yet",
    "C19": "designed (DESIGN.md section 4), check not built yet",
}


def main():
    checks = []
    for cid in sorted(CLAIMED):
        c = CLAIMED[cid]
        checks.append({
            "property_id": cid,
            "quick_cmd": f"/venv/bin/python /verif/check.py {cid} --tier quick",
            "thorough_cmd": f"/venv/bin/python /verif/check.py {cid} --tier thorough",
            "evidence_file": f"/verif/evidence/{cid}.json",
            "replay_cmd_template": "/venv/bin/python /verif/aldysim_replay.py {path}",
            "engine": "aldysim",
            "level_claimed": {"category": c["category"], "text": c["text"], "design_ref": c["design"]},
            "level_note": c["note"],
            "technique": c["technique"],
        })
    na = [{"property_id": k, "reason": v} for k, v in sorted({**NA, **{k: v for k, v in PENDING.items() if k not in CLAIMED}}.items())]
    fixes = []
    m = {
        "version": 1,
        "setup_cmd": "/venv/bin/python /verif/aldysim/setup_check.py",
        "hooks": {
            "guard": "ALDY_VERIF",
            "enable": "no source hooks exist: every seam is a rebinding of a module-level name or of a sys.modules entry done by the harness process (DESIGN.md section 7); the guard name is reserved and unused",
            "baseline_off_cmd": "cd /repo && /venv/bin/python -m pytest -ra -q -p no:cacheprovider --timeout=900 --continue-on-collection-errors",
            "source_commits": fixes,
            "add_only": True,
        },
        "engines": [{
            "name": "aldysim",
            "path": "/verif/aldysim",
            "serves_properties": sorted(CLAIMED),
            "kind_free_text": "seeded environment simulator for a single-threaded batch program: adversarial / faulting ILP-solver facade, alignment-stream facade, hash-seeded process segments with restarts (fork from pristine zygotes), fault plans, exact replay in cold interpreters, greedy minimisation",
        }],
        "checks": checks,
        "not_applicable": na,
        "notes": "Genuine defects found and repaired are listed in /verif/known_findings.json ('fixed'); recorded, unrepaired ones under 'findings'. Sensitivity mutants: /verif/seeded and aldysim/selftest_sensitivity.py.",
    }
    with open(os.path.join(VERIF, "MANIFEST.json"), "w") as f:
        json.dump(m, f, indent=1)
    print("claimed", sorted(CLAIMED), "na", [x["property_id"] for x in na])


if __name__ == "__main__":
    main()

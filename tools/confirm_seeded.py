#!/usr/bin/env python3
"""Confirm a sub-agent's change in its scratch worktree and try the checks against it.

usage: confirm_seeded.py <PROPERTY> <A|B> [--skip-tests] [--checks C18,C14] [--tier quick]

1. in /tmp/wt/<PROPERTY> (scratch worktree): apply patch, run the full test-suite (must pass), run demo.py
   (must fail), revert, run demo.py (must pass);
2. apply the patch to /repo, run the quick check(s), undo it straight afterwards;
3. write /verif/seeded/agent-<property>-<x>/{patch.diff, demo.py, README.md, meta.json}.
"""
import json
import os
import shutil
import subprocess
import sys
import time

VERIF = os.path.dirname(os.path.dirname(os.path.abspath(__file__)))


def sh(cmd, cwd=None, timeout=3600, env=None):
    r = subprocess.run(cmd, shell=True, cwd=cwd, capture_output=True, text=True, timeout=timeout, env=env)
    return r.returncode, r.stdout + r.stderr


def main():
    key, which = sys.argv[1], sys.argv[2]  # key = property id, optionally with a wave suffix (C14w2)
    prop = key[:3]
    args = sys.argv[3:]
    skip_tests = "--skip-tests" in args
    checks = [prop]
    tier = "quick"
    if "--checks" in args:
        checks = args[args.index("--checks") + 1].split(",")
    if "--tier" in args:
        tier = args[args.index("--tier") + 1]
    wt = f"/tmp/wt/{key}"
    src = f"/tmp/wt/{key}-out/{which}"
    sid = f"agent-{key.lower()}-{which.lower()}"
    dst = os.path.join(VERIF, "seeded", sid)
    meta = {"id": sid, "property": prop, "origin": "written by a sub-agent that saw only the property text and its own worktree"}
    old_meta = {}
    if os.path.exists(os.path.join(dst, "meta.json")):
        try:
            old_meta = json.load(open(os.path.join(dst, "meta.json")))
        except Exception:
            old_meta = {}
    if skip_tests and old_meta.get("tests_with_change"):
        meta["tests_with_change"] = old_meta["tests_with_change"]
    if old_meta.get("checks"):
        meta["earlier_check_results"] = (old_meta.get("earlier_check_results") or []) + [old_meta["checks"]]
    if not os.path.isdir(wt):
        # the scratch worktree is gone (removed after the confirmation): only re-run the checks against
        # the kept patch
        src = dst
        results = {}
        copy = f"/dev/shm/seeded-{sid}/repo"
        shutil.rmtree(os.path.dirname(copy), ignore_errors=True)
        os.makedirs(os.path.dirname(copy))
        sh(f"rsync -a --exclude .git /repo/ {copy}/")
        rc, out = sh(f"patch -p1 -s -i {src}/patch.diff", cwd=copy)
        if rc != 0:
            print("patch does not apply to the copy of /repo:", out)
            return 2
        try:
            for c in checks:
                env = dict(os.environ, ALDYSIM_NO_EVIDENCE="1", ALDYSIM_REPLAY_DIR=f"/dev/shm/seeded-{sid}/replays",
                           ALDYSIM_REPO=copy)
                rc, out = sh(f"/venv/bin/python {VERIF}/check.py {c} --tier {tier} --no-selftest", env=env)
                clauses = [l.strip() for l in out.splitlines() if l.strip().startswith("clause:")]
                results[c] = {"exit": rc, "clauses": sorted(set(clauses))[:4], "tier": tier}
                print("check", c, "exit", rc, sorted(set(clauses))[:3])
        finally:
            shutil.rmtree(os.path.dirname(copy), ignore_errors=True)
        old_meta["earlier_check_results"] = (old_meta.get("earlier_check_results") or []) + [old_meta.get("checks", {})]
        old_meta["checks"] = results
        old_meta["detected"] = any(r["exit"] == 1 for r in results.values())
        json.dump(old_meta, open(os.path.join(dst, "meta.json"), "w"), indent=1)
        return 0
    rc, out = sh("git status --porcelain | grep -v '^??' ; git checkout -- .", cwd=wt)
    rc, out = sh(f"git apply --check {src}/patch.diff", cwd=wt)
    if rc != 0:
        print("patch does not apply:", out)
        return 2
    sh(f"git apply {src}/patch.diff", cwd=wt)
    try:
        if not skip_tests:
            t = time.time()
            rc, out = sh("/venv/bin/python -m pytest -q -p no:cacheprovider --timeout=900 -n 6", cwd=wt)
            tail = [l for l in out.splitlines() if " passed" in l or " failed" in l][-1:]
            meta["tests_with_change"] = {"exit": rc, "summary": tail, "wall_s": round(time.time() - t)}
            print("tests with change:", rc, tail)
        rc1, out1 = sh("/venv/bin/python " + os.path.join(src, "demo.py"), cwd=wt, timeout=900)
        meta["demo_with_change"] = {"exit": rc1, "last": out1.strip().splitlines()[-1:] }
        print("demo with change:", rc1, out1.strip().splitlines()[-1:])
    finally:
        sh("git checkout -- .", cwd=wt)
    rc2, out2 = sh("/venv/bin/python " + os.path.join(src, "demo.py"), cwd=wt, timeout=900)
    meta["demo_without_change"] = {"exit": rc2, "last": out2.strip().splitlines()[-1:]}
    print("demo without change:", rc2, out2.strip().splitlines()[-1:])
    confirmed = (meta.get("tests_with_change", {}).get("exit", 0 if skip_tests else 1) == 0) and rc1 != 0 and rc2 == 0
    meta["confirmed"] = confirmed
    # --- our checks against it
    results = {}
    if confirmed:
        # a scratch copy of /repo with the change applied (same mechanism as the sensitivity self-test;
        # /repo itself is never touched, so other runs are not disturbed)
        copy = f"/dev/shm/seeded-{sid}/repo"
        shutil.rmtree(os.path.dirname(copy), ignore_errors=True)
        os.makedirs(os.path.dirname(copy))
        sh(f"rsync -a --exclude .git /repo/ {copy}/")
        rc, out = sh(f"patch -p1 -s -i {src}/patch.diff", cwd=copy)
        if rc != 0:
            print("patch does not apply to the copy of /repo:", out)
            return 2
        try:
            for c in checks:
                env = dict(os.environ, ALDYSIM_NO_EVIDENCE="1", ALDYSIM_REPLAY_DIR=f"/dev/shm/seeded-{sid}/replays",
                           ALDYSIM_REPO=copy)
                t = time.time()
                rc, out = sh(f"/venv/bin/python {VERIF}/check.py {c} --tier {tier} --no-selftest", env=env)
                clauses = [l.strip() for l in out.splitlines() if l.strip().startswith("clause:")]
                results[c] = {"exit": rc, "clauses": sorted(set(clauses))[:4], "wall_s": round(time.time() - t), "tier": tier}
                print("check", c, "exit", rc, sorted(set(clauses))[:3])
        finally:
            shutil.rmtree(os.path.dirname(copy), ignore_errors=True)
    meta["checks"] = results
    meta["detected"] = any(r["exit"] == 1 for r in results.values())
    os.makedirs(dst, exist_ok=True)
    for f in ("patch.diff", "demo.py", "README.md"):
        if os.path.exists(os.path.join(src, f)):
            shutil.copy(os.path.join(src, f), os.path.join(dst, f))
    try:
        readme = open(os.path.join(src, "README.md")).read()
        meta["needs"] = readme[:1500]
    except Exception:
        pass
    meta["ran"] = f"tools/confirm_seeded.py {prop} {which}: worktree /tmp/wt/{prop}: git apply, full pytest, demo.py (fail), " \
                  f"git checkout, demo.py (pass); then scratch copy of /repo with the patch (ALDYSIM_REPO), check.py {','.join(checks)} --tier {tier}"
    json.dump(meta, open(os.path.join(dst, "meta.json"), "w"), indent=1)
    print("confirmed", confirmed, "detected", meta["detected"])
    return 0


if __name__ == "__main__":
    sys.exit(main())

#!/usr/bin/env python3
"""Determinism sweep: every check, several VERIF_SEED values, each batch executed twice - with another number
of workers and the driver under another PYTHONHASHSEED - and the per-plan outcome digests compared.

usage: determinism_sweep.py [--seeds 1,2,3] [--plans 24] [ID ...]
Writes /verif/evidence/determinism.json (informational).  Exit 1 if any plan's digests differ.
"""
import json
import os
import subprocess
import sys
import tempfile
import time

VERIF = os.path.dirname(os.path.dirname(os.path.abspath(__file__)))
IDS = ["C01", "C02", "C03", "C04", "C05", "C06", "C07", "C10", "C14", "C17", "C18", "C19"]


def run(cid, seed, plans, workers, hs, out):
    env = dict(os.environ, ALDYSIM_DIGEST_LOG=out, ALDYSIM_NO_EVIDENCE="1", ALDYSIM_WORKERS=str(workers),
               ALDYSIM_DRIVER_HASHSEED=str(hs), VERIF_SEED=str(seed), VERIF_BUDGET_S="3000",
               ALDYSIM_REPLAY_DIR=tempfile.mkdtemp(prefix="det-replays-", dir=os.environ.get("VERIF_SCRATCH", "/dev/shm")))
    env.pop("PYTHONHASHSEED", None)
    r = subprocess.run(["/venv/bin/python", os.path.join(VERIF, "check.py"), cid, "--tier", "quick", "--plans", str(plans),
                        "--no-selftest"], env=env, capture_output=True, text=True, timeout=7200)
    subprocess.run(["rm", "-rf", env["ALDYSIM_REPLAY_DIR"]])
    d = {}
    if os.path.exists(out):
        for line in open(out):
            i, dg = line.split()
            d[int(i)] = dg
    return r.returncode, d


def main():
    args = sys.argv[1:]
    seeds, plans = [1, 2, 3], 24
    if "--seeds" in args:
        i = args.index("--seeds")
        seeds = [int(x) for x in args[i + 1].split(",")]
        del args[i:i + 2]
    if "--plans" in args:
        i = args.index("--plans")
        plans = int(args[i + 1])
        del args[i:i + 2]
    ids = args or IDS
    res, bad = {}, 0
    tmp = tempfile.mkdtemp(prefix="det-", dir=os.environ.get("VERIF_SCRATCH", "/dev/shm"))
    for cid in ids:
        for seed in seeds:
            t = time.time()
            rc1, a = run(cid, seed, plans, 16, 0, os.path.join(tmp, "a"))
            rc2, b = run(cid, seed, plans, 5, 12345, os.path.join(tmp, "b"))
            common = sorted(set(a) & set(b))
            diff = [i for i in common if a[i] != b[i]]
            bad += len(diff)
            res[f"{cid}:{seed}"] = {"plans_compared": len(common), "differing": diff[:10], "exit": [rc1, rc2],
                                    "wall_s": round(time.time() - t)}
            print(cid, seed, res[f"{cid}:{seed}"])
            sys.stdout.flush()
    subprocess.run(["rm", "-rf", tmp])
    doc = {"what": "per-plan outcome digests of two executions of the same batch: 16 workers / driver hash seed 0 vs "
                   "5 workers / driver hash seed 12345 (fresh interpreters, fresh zygotes)", "results": res,
           "plans_compared": sum(r["plans_compared"] for r in res.values()), "plans_differing": bad}
    json.dump(doc, open(os.path.join(VERIF, "evidence", "determinism.json"), "w"), indent=1)
    print("plans compared", doc["plans_compared"], "differing", bad)
    return 1 if bad else 0


if __name__ == "__main__":
    sys.exit(main())

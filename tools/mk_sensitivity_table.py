#!/usr/bin/env python3
"""Rewrites the block between <!-- SENS:BEGIN --> and <!-- SENS:END --> in DESIGN.md from
evidence/sensitivity.json (own mutants) and seeded/*/meta.json (sub-agent changes, own reverse patches)."""
import glob
import json
import os

VERIF = os.path.dirname(os.path.dirname(os.path.abspath(__file__)))


def main():
    out = []
    sens = {}
    p = os.path.join(VERIF, "evidence", "sensitivity.json")
    if os.path.exists(p):
        sens = json.load(open(p))
    out.append("### 14.1 Own mutants (one-line changes and the reverse patches of the repaired defects)\n")
    out.append("| check | change | quick check result | clauses that fired |")
    out.append("|-------|--------|--------------------|--------------------|")
    tot = det = 0
    for cid in sorted(sens):
        for name, r in sens[cid].items():
            if name == "unmodified":
                out.append(f"| {cid} | *(unmodified copy)* | exit {r['exit']} | - |")
                continue
            tot += 1
            ok = r["exit"] == 1
            det += ok
            cl = "; ".join(c.replace("clause: ", "") for c in r.get("clauses", [])[:2])
            how = "**caught**" + (" (thorough tier, 5 min budget; missed by the quick tier)" if r.get("tier") == "thorough" else "")
            if r["exit"] == "not-applicable":
                how = "patch does not apply to the current tree"
            out.append(f"| {cid} | `{name}` | {how if ok else (how if r['exit'] == 'not-applicable' else 'MISSED (exit %s)' % r['exit'])} | {cl[:160]} |")
    th = sum(1 for cid in sens for n, r in sens[cid].items() if n != "unmodified" and r.get("tier") == "thorough" and r["exit"] == 1)
    out.append(f"\n{det} of {tot} own mutants caught by the check they target ({det - th} by the quick tier, {th} only by the thorough tier).\n")
    out.append("### 14.2 Changes written by sub-agents (saw only the property text and a scratch worktree)\n")
    out.append("Each change was confirmed in the agent's worktree (applies, 77 tests pass with it, its demo fails "
               "with it and passes without it), then the quick check(s) were run on a scratch copy of /repo with the "
               "change applied.\n")
    out.append("| id | property | what it breaks / needs (agent's words, shortened) | confirmed | caught by | clauses |")
    out.append("|----|----------|------------------------------------|-----------|-----------|---------|")
    n = c = 0
    for mp in sorted(glob.glob(os.path.join(VERIF, "seeded", "agent-*", "meta.json"))):
        m = json.load(open(mp))
        n += 1
        caught = [k for k, v in m.get("checks", {}).items() if v["exit"] == 1]
        c += bool(caught)
        cl = "; ".join(x.replace("clause: ", "") for v in m.get("checks", {}).values() for x in v.get("clauses", [])[:2])
        needs = (m.get("summary") or m.get("needs", "")).replace("\n", " ").replace("|", "/")[:260]
        hist = ""
        if m.get("earlier_check_results"):
            first = m["earlier_check_results"][0]
            if not any(v["exit"] == 1 for v in first.values()) and caught:
                hist = " (missed at first; check strengthened, see 14.3)"
        tier = ""
        if caught and any(v.get("tier") == "thorough" for v in m.get("checks", {}).values()):
            tier = " (thorough tier)"
        note = (" - " + m["note"].replace("|", "/")[:400]) if m.get("note") and not caught else ""
        out.append(f"| {m['id']} | {m['property']} | {needs} | {'yes' if m.get('confirmed') else 'NO'} | "
                   f"{', '.join(caught) + tier if caught else '**not caught**' + note}{hist} | {cl[:140]} |")
    out.append(f"\n{c} of {n} sub-agent changes are caught.\n")
    text = "\n".join(out)
    d = open(os.path.join(VERIF, "DESIGN.md")).read()
    a, b = "<!-- SENS:BEGIN -->", "<!-- SENS:END -->"
    if a not in d:
        d += f"\n{a}\n{b}\n"
    i, j = d.index(a) + len(a), d.index(b)
    d = d[:i] + "\n" + text + "\n" + d[j:]
    open(os.path.join(VERIF, "DESIGN.md"), "w").write(d)
    print(f"own: {det}/{tot}; agents: {c}/{n}")


if __name__ == "__main__":
    main()

#!/venv/bin/python
"""Entry point: check.py <ID> --tier quick|thorough   (honours VERIF_SEED, VERIF_TIER,
VERIF_BUDGET_S, VERIF_SCRATCH, ALDYSIM_WORKERS)."""
import argparse
import os
import sys

sys.path.insert(0, os.path.dirname(os.path.abspath(__file__)))

_want = os.environ.get("ALDYSIM_DRIVER_HASHSEED", "0")  # (the determinism sweep runs the driver under others)
if os.environ.get("PYTHONHASHSEED") != _want:
    # the driver itself must not depend on hash order; pin it anyway
    os.environ["PYTHONHASHSEED"] = _want
    os.execv(sys.executable, [sys.executable] + sys.argv)

import warnings  # noqa: E402

warnings.filterwarnings("ignore")


def main():
    ap = argparse.ArgumentParser()
    ap.add_argument("id")
    ap.add_argument("--tier", default=os.environ.get("VERIF_TIER", "quick"))
    ap.add_argument("--seed", type=int, default=int(os.environ.get("VERIF_SEED", "1")))
    ap.add_argument("--plans", type=int, default=None)
    ap.add_argument("--budget", type=float, default=None)
    ap.add_argument("--workers", type=int, default=None)
    ap.add_argument("--no-selftest", action="store_true")
    a = ap.parse_args()
    from aldysim import core
    from aldysim.checks import get_check

    chk = get_check(a.id)
    rc = core.run_check(chk, a.tier, a.seed, budget_s=a.budget, workers=a.workers,
                        nplans=a.plans, selftest=not a.no_selftest)
    sys.exit(rc)


if __name__ == "__main__":
    main()

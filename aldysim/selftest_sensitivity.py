#!/venv/bin/python
"""Sensitivity self-test: break a property on purpose in a scratch copy of /repo and
confirm that the quick check reports a VIOLATION of that property (and that the
unmodified copy passes).  Never touches /repo.

usage: selftest_sensitivity.py [ID ...] [--only NAME] [--tier quick]
Results: /verif/evidence/sensitivity.json (informational; not a property evidence file).
"""
import json
import os
import shutil
import subprocess
import sys
import tempfile
import time

VERIF = os.path.dirname(os.path.dirname(os.path.abspath(__file__)))

# (name, file, old, new)
MUTANTS = {
    "C05": [
        ("status-check-removed", "aldy/lpinterface.py", 'if status != "optimal":\n                return', 'if False:\n                return'),
        ("verify-removed", "aldy/lpinterface.py", "if not self.model.VerifySolution(SOLVER_PRECISON, True):", "if False:"),
        ("getvalue-no-round", "aldy/lpinterface.py", "x = int(round(x))", "x = int(x)"),
        ("gap-test-loosened", "aldy/lpinterface.py", "if abs(obj - ub) >= SOLVER_PRECISON and obj > ub:", "if obj > ub + 0.75:"),
        ("exclusion-cut-weak", "aldy/lpinterface.py", "self.addConstr(self.quicksum(vv.values()) <= len(vv) - 1)", "self.addConstr(self.quicksum(vv.values()) <= len(vv))"),
        ("prod-no-lower-bound", "aldy/lpinterface.py", 'self.addConstr(res >= self.quicksum(terms) - (len(terms) - 1), name="PROD")', "pass"),
        ("abssum-one-side", "aldy/lpinterface.py", 'self.addConstr(absvar - v >= 0, name=f"CABSR_{i}")', "pass"),
        ("escape-no-suffix", "aldy/lpinterface.py", 'return s + f"_{d[s]}"', "return s"),
    ],
    "C10": [
        ("minor-gap-filter-dropped", "aldy/genotype.py", "            if m.score - min_minor_score - profile.gap < SOLUTION_PRECISION", "            if True"),
        ("major-gap-filter-dropped", "aldy/genotype.py", "            if m.score - min_major_score - profile.gap < SOLUTION_PRECISION", "            if True"),
        ("cn-score-difference-forgotten", "aldy/genotype.py", "s.score += cn_sol.score - min_cn_score", "s.score += 0"),
        ("no-major-returns-empty", "aldy/genotype.py", 'raise AldyException("No major solutions found!")', "return {}"),
        ("no-cn-empty-line-omitted", "aldy/genotype.py", '        if is_simple:\n            print(file=output_file)\n        raise AldyException("No solutions found!")', '        raise AldyException("No solutions found!")'),
        ("minor-sorted-descending", "aldy/genotype.py", "        key=lambda m: (int(1000 * m.score), m._solution_nice()),\n    )\n    log.debug(\"*\" * 80)\n\n    if multiple_warn_level >= 1", "        key=lambda m: (-int(1000 * m.score), m._solution_nice()),\n    )\n    log.debug(\"*\" * 80)\n\n    if multiple_warn_level >= 1"),
        ("minor-rescale-dropped", "aldy/genotype.py", "            * ((m.major_solution.cn_solution.score + SLACK) / (min_cn_score + SLACK)),", "            * 1,"),
    ],
    "C17": [
        ("dump-without-indel-sites", "aldy/sam.py", "                    self._indel_sites,  # TODO: remove", "                    {k: [0, 0] for k in self._indel_sites},"),
        ("dump-without-phases", "aldy/sam.py", "                    [v for v in self.phases.values() if len(v) > 1],", "                    [],"),
        ("dump-without-neutral-depth", "aldy/sam.py", "                    self._dump_cn,\n                    {p: Counter(q) for p, q in norm.items()},", "                    {k: v // 2 for k, v in self._dump_cn.items()},\n                    {p: Counter(q) for p, q in norm.items()},"),
        ("dump-params-not-reapplied", "aldy/genotype.py", '    if kind == "dump":\n        profile.update(params)', '    if kind == "dump":\n        pass'),
        ("genome-marker-wrong-build", "aldy/sam.py", "            print(self.gene.genome, file=fd)", '            print("hg19", file=fd)'),
        ("dump-reader-drops-multiplicity", "aldy/sam.py", "        muts = {p: [q for q, n in c.items() for _ in range(n)] for p, c in muts.items()}", "        muts = {p: [q for q, n in c.items() for _ in range(min(n, 15))] for p, c in muts.items()}"),
    ],
    "C14": [
        ("patch:own-c14-mutations-accessor",),
        ("patch:own-c14-minor-filter-closure",),
        ("patch:own-c14-minor-pool-order",),
        ("sort-by-raw-score", "aldy/genotype.py",
         "key=lambda m: (int(1000 * m.score), m._solution_nice()),\n    )\n    log.debug(\"*\" * 80)\n\n    if multiple_warn_level >= 1",
         "key=lambda m: (m.score, m._solution_nice()),\n    )\n    log.debug(\"*\" * 80)\n\n    if multiple_warn_level >= 1"),
    ],
}


def apply(copy, mut):
    if mut[0].startswith("patch:"):
        pdir = os.path.join(VERIF, "seeded", mut[0][6:])
        r = subprocess.run(["patch", "-p1", "-s", "-i", os.path.join(pdir, "patch.diff")], cwd=copy,
                           capture_output=True, text=True)
        if r.returncode != 0:
            raise RuntimeError(f"patch failed: {r.stdout} {r.stderr}")
        return
    name, path, old, new = mut
    p = os.path.join(copy, path)
    s = open(p).read()
    if old not in s:
        raise RuntimeError(f"mutant {name}: anchor not found in {path}")
    open(p, "w").write(s.replace(old, new, 1))


def main():
    args = sys.argv[1:]
    only = None
    tier = "quick"
    if "--only" in args:
        i = args.index("--only")
        only = args[i + 1]
        del args[i : i + 2]
    if "--tier" in args:
        i = args.index("--tier")
        tier = args[i + 1]
        del args[i : i + 2]
    ids = args or sorted(MUTANTS)
    root = os.environ.get("VERIF_SCRATCH") or "/dev/shm"
    work = tempfile.mkdtemp(prefix="aldysim-sens-", dir=root)
    out = {}
    outpath = os.path.join(VERIF, "evidence", "sensitivity.json")
    if os.path.exists(outpath):
        try:
            out = json.load(open(outpath))
        except Exception:
            out = {}
    try:
        for cid in ids:
            res = out.setdefault(cid, {})
            for mut in [("unmodified",)] + MUTANTS.get(cid, []):
                name = mut[0]
                if only and name != only and name != "unmodified":
                    continue
                copy = os.path.join(work, "repo")
                shutil.rmtree(copy, ignore_errors=True)
                subprocess.run(["rsync", "-a", "--exclude", ".git", "/repo/", copy + "/"], check=True)
                if name != "unmodified":
                    apply(copy, mut)
                env = dict(os.environ, ALDYSIM_REPO=copy, ALDYSIM_NO_EVIDENCE="1",
                           ALDYSIM_REPLAY_DIR=os.path.join(work, "replays"))
                t = time.time()
                r = subprocess.run(["/venv/bin/python", os.path.join(VERIF, "check.py"), cid, "--tier", tier,
                                    "--no-selftest"], capture_output=True, text=True, env=env, timeout=3600)
                dt = time.time() - t
                viol = [l for l in r.stdout.splitlines() if l.startswith("VIOLATION")]
                clauses = [l.strip() for l in r.stdout.splitlines() if l.strip().startswith("clause:")]
                res[name] = {"exit": r.returncode, "violations": len(viol), "clauses": clauses[:4],
                             "wall_s": round(dt, 1)}
                want = 0 if name == "unmodified" else 1
                flag = "ok" if r.returncode == want else "UNEXPECTED"
                print(f"{cid} {name}: exit={r.returncode} ({flag}) {dt:.0f}s {clauses[:2]}")
                sys.stdout.flush()
            json.dump(out, open(outpath, "w"), indent=1)
    finally:
        shutil.rmtree(work, ignore_errors=True)


if __name__ == "__main__":
    main()

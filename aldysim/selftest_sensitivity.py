#!/venv/bin/python
"""Sensitivity self-test: break a property on purpose in a scratch copy of /repo and
confirm that the quick check reports a VIOLATION of that property (and that the
unmodified copy passes).  Never touches /repo.

usage: selftest_sensitivity.py [ID ...] [--only NAME] [--tier quick]
Results: /verif/evidence/sensitivity.json (informational; not a property evidence file).
"""
import json
import os
import shutil
import subprocess
import sys
import tempfile
import time

VERIF = os.path.dirname(os.path.dirname(os.path.abspath(__file__)))

# (name, file, old, new)
MUTANTS = {
    "C05": [
        ("patch:own-c05-recursive-enumeration",),
        ("status-check-removed", "aldy/lpinterface.py", 'if status != "optimal":\n                    return', 'if False:\n                    return'),
        ("verify-removed", "aldy/lpinterface.py", "if not self.model.VerifySolution(SOLVER_PRECISON, True):", "if False:"),
        ("getvalue-no-round", "aldy/lpinterface.py", "x = int(round(x))", "x = int(x)"),
        ("gap-test-loosened", "aldy/lpinterface.py", "if abs(obj - ub) >= SOLVER_PRECISON and obj > ub:", "if obj > ub + 0.75:"),
        ("exclusion-cut-weak", "aldy/lpinterface.py", "self.addConstr(self.quicksum(vv.values()) <= len(vv) - 1)", "self.addConstr(self.quicksum(vv.values()) <= len(vv))"),
        ("prod-no-lower-bound", "aldy/lpinterface.py", 'self.addConstr(res >= self.quicksum(terms) - (len(terms) - 1), name="PROD")', "pass"),
        ("abssum-one-side", "aldy/lpinterface.py", 'self.addConstr(absvar - v >= 0, name=f"CABSR_{i}")', "pass"),
        ("escape-no-suffix", "aldy/lpinterface.py", 'return s + f"_{d[s]}"', "return s"),
    ],
    "C10": [
        ("minor-gap-filter-dropped", "aldy/genotype.py", "            if m.score - min_minor_score - profile.gap < SOLUTION_PRECISION", "            if True"),
        ("major-gap-filter-dropped", "aldy/genotype.py", "            if m.score - min_major_score - profile.gap < SOLUTION_PRECISION", "            if True"),
        ("cn-score-difference-forgotten", "aldy/genotype.py", "s.score += cn_sol.score - min_cn_score", "s.score += 0"),
        ("no-major-returns-empty", "aldy/genotype.py", 'raise AldyException("No major solutions found!")', "return {}"),
        ("no-cn-empty-line-omitted", "aldy/genotype.py", '        if is_simple:\n            print(file=output_file)\n        raise AldyException("No solutions found!")', '        raise AldyException("No solutions found!")'),
        ("minor-sorted-descending", "aldy/genotype.py", "        key=lambda m: (int(1000 * m.score), m._solution_nice()),\n    )\n    log.debug(\"*\" * 80)\n\n    if multiple_warn_level >= 1", "        key=lambda m: (-int(1000 * m.score), m._solution_nice()),\n    )\n    log.debug(\"*\" * 80)\n\n    if multiple_warn_level >= 1"),
        ("minor-rescale-dropped", "aldy/genotype.py", "            * ((m.major_solution.cn_solution.score + SLACK) / (min_cn_score + SLACK)),", "            * 1,"),
    ],
    "C17": [
        ("patch:own-c17-dump-aliasing",),
        ("patch:own-c17-dump-min-avg-coverage-reset",),
        ("patch:own-c17-dump-resets-display-parameters",),
        ("patch:own-c17-refused-sample-line-names-archive",),
        ("dump-without-indel-sites", "aldy/sam.py", "                    self._indel_sites,  # TODO: remove", "                    {k: [0, 0] for k in self._indel_sites},"),
        ("dump-without-phases", "aldy/sam.py", "                    [v for v in self.phases.values() if len(v) > 1],", "                    [],"),
        ("dump-without-neutral-depth", "aldy/sam.py", "                    self._dump_cn,\n                    {p: Counter(q) for p, q in norm.items()},", "                    {k: v // 2 for k, v in self._dump_cn.items()},\n                    {p: Counter(q) for p, q in norm.items()},"),
        ("genome-marker-wrong-build", "aldy/sam.py", "            print(self.gene.genome, file=fd)", '            print("hg19", file=fd)'),
        ("dump-reader-drops-multiplicity", "aldy/sam.py", "        muts = {p: [q for q, n in c.items() for _ in range(n)] for p, c in muts.items()}", "        muts = {p: [q for q, n in c.items() for _ in range(min(n, 15))] for p, c in muts.items()}"),
    ],
    "C06": [
        ("patch:own-c01-mnp-phase-record",),
        ("patch:own-c06-silent-mnp-not-merged",),
        ("patch:own-c06-cut-read-erases-mates-entry",),
        ("softclip-consumes-reference", "aldy/sam.py", "            elif op == 4:  # Soft-clip\n                s_start += size", "            elif op == 4:  # Soft-clip\n                s_start += size\n                start += size"),
        ("eq-x-ops-ignored", "aldy/sam.py", "            elif op in [0, 7, 8]:  # M, X and =", "            elif op in [0]:  # M, X and ="),
        ("supplementary-not-skipped", "aldy/sam.py", "                if read.is_supplementary:  # avoid supplementary alignments\n                    continue", "                if False:\n                    continue"),
        ("hardclip-not-skipped", "aldy/sam.py", '                if "H" in read.cigarstring:  # avoid hard-clipped reads\n                    continue', "                if False:\n                    continue"),
        ("dedup-by-read-name", "aldy/sam.py", "                if not read.query_sequence:\n                    continue\n                # ensure", "                if not read.query_sequence:\n                    continue\n                if read.query_name in self.phases:\n                    continue\n                # ensure"),
        ("mnp-first-base-also-reference", "aldy/sam.py", "                        if p:  # no idea why...", "                        if True:  # no idea why..."),
        ("mapq-replaced-by-baseq", "aldy/sam.py", "                        norm[start + i].append((bin_quality(mq), bin_quality(q)))", "                        norm[start + i].append((bin_quality(q), bin_quality(q)))"),
        ("bin-edge-shifted", "aldy/sam.py", "            if q < 10:\n                return 6", "            if q <= 10:\n                return 6"),
        ("deletion-not-counted", "aldy/sam.py", '                    muts[start + i, "-"].append((bin_quality(mq), bin_quality(prev_q)))', "                    pass"),
        ("phase-overwritten-by-reference", "aldy/sam.py", "                        if start + i in self.phaseable:\n                            phase[start + i] = mut[1]", "                        if start + i in self.phaseable:\n                            phase[start + i] = \"_\""),
    ],
    "C07": [
        ("profile-halving-dropped", "aldy/coverage.py", "                p /= 2  # profile has 2 copies, so divide it with 2 for normalization", "                pass"),
        ("region-bound-inclusive", "aldy/coverage.py", "                s = sum(self.total(i) for i in range(rng.start, rng.end))", "                s = sum(self.total(i) for i in range(rng.start, rng.end + 1))"),
        ("neutral-counts-softclips", "aldy/sam.py", "                        if op in [0, 7, 8, 2]:\n                            for i in range(size):\n                                self._dump_cn[start + i] += 1", "                        if op in [0, 7, 8, 2, 4]:\n                            for i in range(size):\n                                self._dump_cn[start + i] += 1"),
        ("neutral-guard-removed", "aldy/coverage.py", "        if sam_ref == 0:", "        if False:"),
        ("neutral-depth-sqrt", "aldy/coverage.py", "        ratio = self.profile.neutral_value / sam_ref", "        ratio = self.profile.neutral_value / (sam_ref + 1)"),
        ("profile-skips-deletions", "aldy/profile.py", "                            if op == 2:\n                                for i in range(size):\n                                    cov[c][start + i] += 1\n                                start += size", "                            if op == 2:\n                                start += size"),
    ],
    "C18": [
        ("patch:own-c18-bool-parsing",),
        ("patch:own-c18-exome-min-coverage",),
        ("patch:own-c18-empty-options-section",),
        ("patch:own-c18-neutral-value-parameter",),
        ("patch:own-c18-options-ignored-with-user-structure",),
        ("patch:own-c18-reserved-names-not-ignored",),
        ("patch:own-c18-options-ignored-with-vcf-input",),
        ("patch:own-c18-fractional-int-truncated",),
        ("patch:own-c18-profile-fields-with-user-structure",),
        ("values-kept-as-strings", "aldy/profile.py", "                            self.__dict__[n] = typ(v)", "                            self.__dict__[n] = v"),
        ("precedence-reversed", "aldy/profile.py", '        options = dict(prof.get("options") or {}, **params)', '        options = dict(params, **(prof.get("options") or {}))'),
        ("options-dropped-on-write", "aldy/profile.py", '                d["options"][k] = v', "                pass"),
        ("dash-not-normalised", "aldy/__main__.py", '                        params[k.replace("-", "_")] = v\n            # --param names', '                        params[k] = v\n            # --param names'),
        ("dump-params-not-reapplied", "aldy/genotype.py", '    if kind == "dump":\n        profile.update(params)', '    if kind == "dump":\n        pass'),
    ],
    "C19": [
        ("patch:own-c19-guard-skipped-with-user-cn",),
        ("patch:own-c19-simple-line-not-terminated",),
        ("patch:own-c19-average-over-flanks",),
        ("patch:own-c19-low-depth-guard-regions",),
        ("patch:own-c19-zero-minimum-depth",),
        ("patch:own-c19-contig-absent",),
        ("patch:own-c19-reference-skip-ignored",),
        ("patch:own-c19-neutral-contig-absent",),
        ("patch:own-c19-simple-line-sample-refused",),
        ("avg-depth-guard-removed", "aldy/genotype.py", "        if avg_cov < profile.min_avg_coverage or avg_cov <= 0:", "        if False:"),
        ("oserror-swallowed", "aldy/sam.py", "            for read in iter:\n                if not read.cigartuples:  # only valid alignments", "            for read in _safe(iter):\n                if not read.cigartuples:  # only valid alignments"),
    ],
    "C01": [
        ("patch:own-c01-insertion-phase-anchor",),
        ("patch:own-c01-mnp-phase-record",),
        ("patch:own-c01-read-ends-inside-mnp",),
        ("patch:own-c01-read-ends-on-insertion-anchor",),
        ("patch:own-c06-silent-mnp-not-merged",),
        ("minus-strand-insertion-anchor", "aldy/gene.py", '                        op = f"ins{rev_comp(op[3:])}"\n                        pos += 1', '                        op = f"ins{rev_comp(op[3:])}"'),
        ("deletion-anchor-in-realignment", "aldy/sam.py", "                    p -= 1\n                    o = self.gene[p]", "                    o = self.gene[p]"),
        ("minus-strand-mnp-anchor", "aldy/gene.py", "                        pos = pos + len(l) - 1", "                        pos = pos"),
    ],
    "C02": [
        ("csat-lower-bound-dropped", "aldy/major.py", '        model.addConstr(expr >= cnt, name=f"CSAT_{cnf}")', '        model.addConstr(expr >= 0, name=f"CSAT_{cnf}")'),
        ("cone-dropped", "aldy/major.py", '        model.addConstr(z <= 1, name=f"CONE_{pos}")', "        pass"),
        ("xor-not-forced", "aldy/major.py", '        model.addConstr(VXOR >= 1, name="CXOR")', '        model.addConstr(VXOR >= 0, name="CXOR")'),
        ("novel-unit-penalty-dropped", "aldy/major.py", "    objective += 0.1 * model.quicksum(VNEW[m] for m in VNEW)", "    objective += 0.0 * model.quicksum(VNEW[m] for m in VNEW)"),
        ("reference-ignores-coverage", "aldy/major.py", "            if not gene.has_coverage(a[0], pos):\n                continue\n            # An insertion", "            if False:\n                continue\n            # An insertion"),
        ("ordering-reversed-gap", "aldy/major.py", "    for status, opt, sol in model.solutions(coverage.profile.gap):", "    for status, opt, sol in model.solutions(coverage.profile.gap, limit=1):"),
    ],
    "C03": [
        ("patch:own-c03-archive-ignores-user-structure",),
        ("patch:own-c03-vcf-hardwired-structure",),
        ("patch:own-c03-support-filter-drops-partial-deletions",),
        ("diplo-lower-bound-dropped", "aldy/cn.py", '    model.addConstr(diplo_inducing >= 2, name="CDIPLO")', '    model.addConstr(diplo_inducing >= 0, name="CDIPLO")'),
        ("fusion-penalty-dropped", "aldy/cn.py", "            penalty[n] += PARSIMONY_PENALTY * profile.cn_fusion_left", "            penalty[n] += 0"),
        ("gene-fit-term-dropped", "aldy/cn.py", "    model.setObjective(o_diff + o_fit + o_pars)", "    model.setObjective(o_diff + o_pars)"),
        ("first-only", "aldy/cn.py", "    for status, opt, sol in model.solutions(profile.gap):", "    for status, opt, sol in model.solutions(profile.gap, limit=1):"),
        ("user-structure-deduplicated", "aldy/cn.py", "    s = CNSolution(gene, 0, sols)  # type: ignore", "    s = CNSolution(gene, 0, sorted(set(sols)))  # type: ignore"),
        ("male-default-ignored", "aldy/cn.py", '        if profile.male and gene.chr in ["X", "Y"]:', '        if profile.male and gene.chr in ["Y"]:'),
    ],
    "C04": [
        ("cfunc-dropped", "aldy/minor.py", "                    VKEEP[a][m][0] >= VA[a],", "                    VKEEP[a][m][0] >= 0,"),
        ("csinglefull-dropped", "aldy/minor.py", "                    model.quicksum(mp + ma) <= 1,", "                    model.quicksum(mp + ma) <= 5,"),
        ("cminone-dropped", "aldy/minor.py", '            model.addConstr(expr >= 1, name=f"CMINONE_{m.pos}_{m.op}")', "            pass"),
        ("cnocov-dropped", "aldy/minor.py", '            model.addConstr(expr <= 0, name=f"CNOCOV_{m.pos}_{m.op}")\n        else:\n            model.addConstr(expr <= coverage[m]', '            pass\n        else:\n            model.addConstr(expr <= coverage[m]'),
        ("miss-penalty-sign", "aldy/minor.py", "    o_penal -= coverage.profile.minor_miss * model.quicksum(", "    o_penal -= 0.5 * coverage.profile.minor_miss * model.quicksum("),
        ("added-read-from-wrong-allele", "aldy/minor.py", "                for m, mv in VNEW[allele].items():\n                    if model.getValue(mv[0]):", "                for m, mv in VNEW[allele].items():\n                    if model.getValue(mv[0]) or (m in VNEW.get((allele[0], 0), {}) and model.getValue(VNEW[(allele[0], 0)][m][0])):"),
        ("ccnt-upper-only", "aldy/minor.py", '        model.addConstr(expr >= cnt, name=f"CCNT_{sa.major}_2")', '        model.addConstr(expr >= 0, name=f"CCNT_{sa.major}_2")'),
    ],
    "C14": [
        ("patch:own-c14-mutations-accessor",),
        ("patch:own-c14-minor-filter-closure",),
        ("patch:own-c14-major-model-order",),
        ("patch:own-c14-gene-list-lowercased",),
        ("patch:own-c14-minor-pool-order",),
        ("patch:own-c14-minor-hash-order",),
    ],
}


_SAFE = """

def _safe(it):
    try:
        for x in it:
            yield x
    except (OSError, ValueError):
        return
"""


def apply(copy, mut):
    if mut[0].startswith("patch:"):
        pdir = os.path.join(VERIF, "seeded", mut[0][6:])
        r = subprocess.run(["patch", "-p1", "-s", "-i", os.path.join(pdir, "patch.diff")], cwd=copy,
                           capture_output=True, text=True)
        if r.returncode != 0:
            raise RuntimeError(f"patch failed: {r.stdout} {r.stderr}")
        return
    name, path, old, new = mut
    p = os.path.join(copy, path)
    s = open(p).read()
    if old not in s:
        raise RuntimeError(f"mutant {name}: anchor not found in {path}")
    s = s.replace(old, new, 1)
    if "_safe(" in new:
        s += _SAFE
    open(p, "w").write(s)


def main():
    args = sys.argv[1:]
    only = None
    tier = "quick"
    if "--only" in args:
        i = args.index("--only")
        only = args[i + 1]
        del args[i : i + 2]
    if "--tier" in args:
        i = args.index("--tier")
        tier = args[i + 1]
        del args[i : i + 2]
    ids = args or sorted(MUTANTS)
    root = os.environ.get("VERIF_SCRATCH") or "/dev/shm"
    work = tempfile.mkdtemp(prefix="aldysim-sens-", dir=root)
    out = {}
    outpath = os.path.join(VERIF, "evidence", "sensitivity.json")
    if os.path.exists(outpath):
        try:
            out = json.load(open(outpath))
        except Exception:
            out = {}
    try:
        for cid in ids:
            res = out.setdefault(cid, {})
            for mut in [("unmodified",)] + MUTANTS.get(cid, []):
                name = mut[0]
                if only and name != only and name != "unmodified":
                    continue
                copy = os.path.join(work, "repo")
                shutil.rmtree(copy, ignore_errors=True)
                subprocess.run(["rsync", "-a", "--exclude", ".git", "/repo/", copy + "/"], check=True)
                if name != "unmodified":
                    try:
                        apply(copy, mut)
                    except RuntimeError as ex:
                        res[name] = {"exit": "not-applicable", "violations": 0, "clauses": [str(ex)[:160]], "wall_s": 0}
                        print(f"{cid} {name}: DOES NOT APPLY to the current tree ({str(ex)[:100]})")
                        sys.stdout.flush()
                        continue
                env = dict(os.environ, ALDYSIM_REPO=copy, ALDYSIM_NO_EVIDENCE="1",
                           ALDYSIM_REPLAY_DIR=os.path.join(work, "replays"))
                t = time.time()
                r = subprocess.run(["/venv/bin/python", os.path.join(VERIF, "check.py"), cid, "--tier", tier,
                                    "--no-selftest"], capture_output=True, text=True, env=env, timeout=3600)
                dt = time.time() - t
                viol = [l for l in r.stdout.splitlines() if l.startswith("VIOLATION")]
                clauses = [l.strip() for l in r.stdout.splitlines() if l.strip().startswith("clause:")]
                res[name] = {"exit": r.returncode, "violations": len(viol), "clauses": clauses[:4],
                             "wall_s": round(dt, 1), "tier": tier}
                want = 0 if name == "unmodified" else 1
                flag = "ok" if r.returncode == want else "UNEXPECTED"
                print(f"{cid} {name}: exit={r.returncode} ({flag}) {dt:.0f}s {clauses[:2]}")
                sys.stdout.flush()
            json.dump(out, open(outpath, "w"), indent=1)
    finally:
        shutil.rmtree(work, ignore_errors=True)


if __name__ == "__main__":
    main()

#!/venv/bin/python
"""Zygote: a pristine interpreter (fixed PYTHONHASHSEED) that has imported aldy and
installed the seams.  Every request is executed in a fork(), so each process
segment starts from exactly the same interpreter state.

Protocol (line-delimited JSON on stdin/stdout):
  request  {"check": "C14", "segment": {...}, "timeout": 120}
  response {"ok": true, "result": {...}} | {"ok": false, "harness": "...", "detail": "..."}

`--once FILE` executes one request from FILE in *this* (cold) interpreter and
prints the response: that is the replay path.
"""
import faulthandler
import json
import os
import select
import signal
import sys
import time
import traceback

HERE = os.path.dirname(os.path.abspath(__file__))
sys.path.insert(0, os.path.dirname(HERE))
_repo = os.environ.get("ALDYSIM_REPO")
if _repo:
    sys.path.insert(0, _repo)

import warnings  # noqa: E402

warnings.filterwarnings("ignore")


def _imports():
    import aldy  # noqa
    import aldy.genotype  # noqa
    import aldy.query  # noqa
    import aldy.__main__  # noqa
    import aldy.indelpost  # noqa
    from aldysim import seams

    seams.install_all()
    from aldysim import checks  # noqa

    return seams


def execute(req):
    """Run one segment in the current process; returns the response dict."""
    from aldysim import seams
    from aldysim.checks import get_check

    try:
        seams.SIM.reset(req["segment"].get("sim", {}))
        seams.SIM.ever_exceeded = False
        mod = get_check(req["check"])
        res = mod.run_segment(req["segment"])
        if seams.SIM.budget_exceeded or seams.SIM.ever_exceeded:
            return {"ok": False, "harness": "discard",
                    "detail": f"workload bound exceeded after {seams.SIM.solve_index} solves"}
        return {"ok": True, "result": res}
    except BaseException:
        return {"ok": False, "harness": "error", "detail": traceback.format_exc()[-6000:]}


_TICK = os.sysconf("SC_CLK_TCK") if hasattr(os, "sysconf") else 100


def _cpu_seconds(pid):
    """User + system time of the process and of its reaped children, in seconds."""
    try:
        with open(f"/proc/{pid}/stat") as f:
            rest = f.read().rsplit(")", 1)[1].split()
        return sum(int(x) for x in rest[11:15]) / _TICK
    except Exception:
        return 0.0


def serve():
    _imports()
    sys.stdout.write(json.dumps({"ready": True, "hashseed": os.environ.get("PYTHONHASHSEED")}) + "\n")
    sys.stdout.flush()
    for line in sys.stdin:
        line = line.strip()
        if not line:
            continue
        req = json.loads(line)
        timeout = float(req.get("timeout", 120))
        r, w = os.pipe()
        pid = os.fork()
        if pid == 0:
            # ---- child: one process segment
            try:
                os.close(r)
                os.setsid()
                devnull = os.open(os.devnull, os.O_WRONLY)
                logpath = req.get("child_log")
                if logpath:
                    fd = os.open(logpath, os.O_WRONLY | os.O_CREAT | os.O_APPEND, 0o644)
                else:
                    fd = devnull
                os.dup2(fd, 1)
                os.dup2(fd, 2)
                faulthandler.enable()
                resp = execute(req)
                data = json.dumps(resp).encode()
                off = 0
                while off < len(data):
                    off += os.write(w, data[off : off + 65536])
                os.close(w)
            finally:
                os._exit(0)
        os.close(w)
        chunks = []
        # the bound is on the CPU time the segment has used (it does not depend on how busy the machine
        # is); a segment that does not compute at all is stopped after six times that much wall time
        deadline = time.monotonic() + 6 * timeout
        timed_out = False
        while True:
            left = deadline - time.monotonic()
            if left <= 0 or _cpu_seconds(pid) > timeout:
                timed_out = True
                break
            rl, _, _ = select.select([r], [], [], min(left, 1.0))
            if rl:
                b = os.read(r, 1 << 16)
                if not b:
                    break
                chunks.append(b)
        os.close(r)
        if timed_out:
            try:
                os.killpg(pid, signal.SIGKILL)
            except Exception:
                try:
                    os.kill(pid, signal.SIGKILL)
                except Exception:
                    pass
        try:
            os.waitpid(pid, 0)
        except Exception:
            pass
        if timed_out:
            out = {"ok": False, "harness": "timeout", "detail": f"segment exceeded {timeout}s of CPU time (or {6 * timeout}s of wall time)"}
        else:
            raw = b"".join(chunks)
            try:
                out = json.loads(raw)
            except Exception:
                out = {"ok": False, "harness": "crash", "detail": f"child died, {len(raw)} bytes"}
        sys.stdout.write(json.dumps(out) + "\n")
        sys.stdout.flush()


def once(path):
    _imports()
    req = json.load(open(path))
    faulthandler.enable()
    out = execute(req)
    sys.stdout.write(json.dumps(out) + "\n")


if __name__ == "__main__":
    if len(sys.argv) >= 3 and sys.argv[1] == "--once":
        once(sys.argv[2])
    else:
        serve()

"""World generator: consistent gene databases, samples, reads and containers.

Everything is derived from a `random.Random` handed in by the plan generator and
returned as a plain-JSON *spec* (explicit sequences, coordinates, variants,
alleles, sample composition).  `materialise()` turns a spec into files.  A spec
is self-contained, so replay files carry it verbatim and the minimiser can
shrink it structurally.

Coordinates in a spec are 0-based, half-open, on the forward strand of the
simulated contig ("genome level").  The database text is written in RefSeq terms
by `gene_yaml()` using sequence-level rules that do not call into aldy:

    SNP   at g            -> + : [g-G0+1, R>A]          - : [G1-g, comp(R)>comp(A)]
    MNP   at g..g+k-1     -> + : [g-G0+1, REF>ALT]      - : [G1-g-k+1, rc(REF)>rc(ALT)]
    del   of [g, g+k)     -> + : [g-G0+1, delSEQ]       - : [G1-g-k+1, del rc(SEQ)]
    ins X after g         -> + : [g-G0+1, insX]         - : [G1-1-g, ins rc(X)]

and the *loaded* form aldy is expected to hold (`expected_mutation`) is
(g, "R>A"), (g, "REF>ALT"), (g, "delSEQ"), (g, "insX").
"""

import os
import random

COMP = {"A": "T", "C": "G", "G": "C", "T": "A", "N": "N"}


def rc(s):
    return "".join(COMP.get(c, c) for c in reversed(s))


def rand_seq(rng, n):
    return "".join(rng.choice("ACGT") for _ in range(n))


# --------------------------------------------------------------------------
# generation


def _partition(rng, n, k, lo):
    """Split n into k parts, each >= lo."""
    assert n >= k * lo
    extra = n - k * lo
    cuts = sorted(rng.randint(0, extra) for _ in range(k - 1))
    parts = []
    prev = 0
    for c in cuts + [extra]:
        parts.append(lo + c - prev)
        prev = c
    return parts


def gen_gene(rng, name, contig_seq, g0, p0, opts):
    """Generate one gene on `contig_seq` (a list of chars, modified in place for
    the pseudogene copy).  Returns the gene spec."""
    n = opts["gene_len"]
    strand = opts["strand"]
    nex = opts["n_exons"]
    g1 = g0 + n
    # layout in RefSeq order: up, e1, i1, ..., eN, down  (RefSeq offsets)
    parts = _partition(rng, n, 2 * nex + 1, 30)
    names = ["up"]
    for k in range(1, nex + 1):
        names.append(f"e{k}")
        if k < nex:
            names.append(f"i{k}")
    names.append("down")
    # exons: length multiple of 3 is not required by aldy
    ref_regions = []
    off = 0
    for nm, ln in zip(names, parts):
        ref_regions.append([nm, off, off + ln])
        off += ln
    assert off == n

    def to_genome(a, b, base0, base1):
        if strand == "+":
            return [base0 + a, base0 + b]
        return [base1 - b, base1 - a]

    regions = [[nm] + to_genome(a, b, g0, g1) for nm, a, b in ref_regions]
    exons_ref = [[a, b] for nm, a, b in ref_regions if nm[0] == "e"]
    has_pseudo = p0 is not None
    pregions = None
    if has_pseudo:
        p1 = p0 + n
        pregions = [[nm] + to_genome(a, b, p0, p1) for nm, a, b in ref_regions]
        # diverged copy of the gene body
        div = opts.get("pseudo_div", 0.07)
        for i in range(n):
            c = contig_seq[g0 + i]
            if rng.random() < div:
                c = rng.choice([x for x in "ACGT" if x != c])
            contig_seq[p0 + i] = c

    cn_names = [nm for nm in names if nm not in ("up", "down")]
    if opts.get("cn_subset") and len(cn_names) > 2:
        k = rng.randint(2, len(cn_names))
        if opts["cn_subset"] == "two":
            k = 2  # copy number judged on two regions only
        keep = set(rng.sample(cn_names, k))
        cn_names = [x for x in cn_names if x in keep]

    gene = {
        "name": name,
        "strand": strand,
        "g0": g0,
        "g1": g1,
        "p0": p0,
        "regions": regions,
        "pregions": pregions,
        "exons_ref": exons_ref,
        "cn_regions": cn_names,
        "pseudo": (name + "P") if has_pseudo else None,
        "tandems": [],
        "variants": {},
        "alleles": [],
    }
    _gen_variants(rng, gene, contig_seq, opts)
    _gen_alleles(rng, gene, opts)
    return gene


def _region_of(gene, g):
    for nm, a, b in gene["regions"]:
        if a <= g < b:
            return nm
    return None


def _gen_variants(rng, gene, contig_seq, opts):
    """Place non-overlapping, non-shiftable variants inside the gene body."""
    g0, g1 = gene["g0"], gene["g1"]
    nvar = opts["n_variants"]
    kinds = opts["kinds"]
    taken = []  # (start, end) with margins
    seq = contig_seq
    tries = 0
    vid = 0
    # keep clear of region borders so that a variant belongs to one region
    borders = sorted({a for _, a, b in gene["regions"]} | {b for _, a, b in gene["regions"]})

    def clear(a, b):
        for x in borders:
            if a - 4 <= x <= b + 4:
                return False
        for s, e in taken:
            if a < e + 14 and s < b + 14:
                return False
        return True

    inner = [r for r in gene["regions"] if r[0] not in ("up", "down")]
    while len(gene["variants"]) < nvar and tries < 4000:
        tries += 1
        kind = rng.choice(kinds)
        # prefer exons/introns over up/down: fusion break points live there
        if rng.random() < 0.85:
            _, ra, rb = rng.choice(inner)
        else:
            _, ra, rb = rng.choice(gene["regions"])
        if rb - ra < 16:
            continue
        g = rng.randint(ra + 5, rb - 10)
        if kind == "snp":
            if not clear(g, g + 1):
                continue
            ref = seq[g]
            alt = rng.choice([x for x in "ACGT" if x != ref])
            v = {"kind": "snp", "g": g, "ref": ref, "alt": alt}
            span = (g, g + 1)
        elif kind == "mnp":
            k = rng.choice([2, 2, 3])
            if not clear(g, g + k):
                continue
            ref = "".join(seq[g : g + k])
            alt = "".join(rng.choice([x for x in "ACGT" if x != c]) for c in ref)
            if k == 3 and opts.get("gapped_mnp") and rng.random() < 0.6:
                # the middle base is not part of the substitution (written G.G>A.C in the database)
                ref, alt = ref[0] + "." + ref[2], alt[0] + "." + alt[2]
            v = {"kind": "mnp", "g": g, "ref": ref, "alt": alt}
            span = (g, g + k)
        elif kind == "del":
            k = rng.randint(1, 4)
            if not clear(g, g + k):
                continue
            # not shiftable: base before != last deleted, first deleted != base after
            if seq[g - 1] == seq[g + k - 1] or seq[g] == seq[g + k]:
                continue
            v = {"kind": "del", "g": g, "ref": "".join(seq[g : g + k]), "alt": ""}
            span = (g, g + k)
        else:  # ins: X inserted after g
            k = rng.randint(1, 4)
            if not clear(g, g + 2):
                continue
            x = rand_seq(rng, k)
            if x[-1] == seq[g] or x[0] == seq[g + 1]:
                continue
            # avoid creating a tandem copy of the flanks
            v = {"kind": "ins", "g": g, "ref": "", "alt": x}
            span = (g, g + 2)
        vid += 1
        v["id"] = f"v{vid}"
        v["region"] = _region_of(gene, g)
        taken.append(span)
        gene["variants"][v["id"]] = v
    # a cluster: an insertion / deletion within a short read's reach of an existing substitution
    if opts.get("cluster"):
        snps = [v for v in gene["variants"].values() if v["kind"] == "snp"]
        for _ in range(40):
            if not snps:
                break
            base = rng.choice(snps)
            g = base["g"] + rng.choice([-1, 1]) * rng.randint(18, 35)
            if not (g0 + 10 < g < g1 - 10) or not clear(g, g + 3):
                continue
            if rng.random() < 0.6:
                x = rand_seq(rng, rng.randint(1, 4))
                if x[-1] == seq[g] or x[0] == seq[g + 1]:
                    continue
                v = {"kind": "ins", "g": g, "ref": "", "alt": x}
            else:
                k = rng.randint(1, 3)
                if seq[g - 1] == seq[g + k - 1] or seq[g] == seq[g + k]:
                    continue
                v = {"kind": "del", "g": g, "ref": "".join(seq[g: g + k]), "alt": ""}
            vid += 1
            v["id"] = f"v{vid}"
            v["region"] = _region_of(gene, g)
            taken.append((g, g + 3))
            gene["variants"][v["id"]] = v
            break
    # a substitution on the very first / last base of the RefSeq-mapped range
    if opts.get("edge_variant"):
        for g in ([g1 - 1] if opts["edge_variant"] == "last" else [g0] if opts["edge_variant"] == "first" else [g0, g1 - 1]):
            if any(abs(v["g"] - g) < 3 for v in gene["variants"].values()):
                continue
            ref = seq[g]
            vid += 1
            gene["variants"][f"v{vid}"] = {"kind": "snp", "g": g, "ref": ref, "id": f"v{vid}", "edge": True,
                                           "alt": rng.choice([x for x in "ACGT" if x != ref]),
                                           "region": _region_of(gene, g)}
    # multi-allelic sites: a second substitution at the position of an existing one
    if opts.get("multiallelic"):
        snps = [v for v in gene["variants"].values() if v["kind"] == "snp"]
        for v in snps[: rng.randint(1, 2)]:
            alts = [x for x in "ACGT" if x not in (v["ref"], v["alt"])]
            rng.shuffle(alts)
            for alt in alts[: rng.choice([1, 1, 2])]:  # up to three alternative alleles at one site
                vid += 1
                w = dict(v, alt=alt, id=f"v{vid}")
                gene["variants"][w["id"]] = w
                if opts["multiallelic"] == "core":
                    v["force_func"] = w["force_func"] = True  # every alternative of the site is a core variant
    # functional / silent split: at least half functional
    # (multi-nucleotide substitutions are functional unless opts["silent_mnp"]: the pinned tree only merged
    # those that are core variants, sam.py `_multi_sites`)
    ids = list(gene["variants"])
    rng.shuffle(ids)
    if not opts.get("silent_mnp"):
        ids.sort(key=lambda k: gene["variants"][k]["kind"] != "mnp")
    nfunc = max(1, (len(ids) + 1) // 2)
    for i, k in enumerate(ids):
        gene["variants"][k]["func"] = (i < nfunc
                                       or (gene["variants"][k]["kind"] == "mnp" and not opts.get("silent_mnp"))
                                       or bool(gene["variants"][k].get("edge"))
                                       or bool(gene["variants"][k].get("force_func")))
        gene["variants"][k]["rsid"] = f"rs{1000 + int(k[1:])}" if rng.random() < 0.7 else "-"
    # two insertions at different positions, 15-60 bp apart, the downstream inserted sequence equal to or a
    # prefix of the upstream one; one allele carries both in cis (see _gen_alleles)
    if opts.get("repeat_ins"):
        for _ in range(400):
            _, ra, rb = rng.choice(inner)
            d = rng.randint(*opts.get("repeat_d", (15, 60)))
            if rb - ra < d + 20:
                continue
            g = rng.randint(ra + 6, rb - d - 10)
            x = rand_seq(rng, rng.randint(1, 4))
            y = x if rng.random() < 0.5 else x[: rng.randint(1, len(x))]
            if not clear(g, g + d + 2):
                continue
            if x[-1] == seq[g] or x[0] == seq[g + 1] or y[-1] == seq[g + d] or y[0] == seq[g + d + 1]:
                continue
            ids = []
            for gg, alt, func in ((g, x, True), (g + d, y, rng.random() < 0.5)):
                vid = max([int(k[1:]) for k in gene["variants"]] + [0]) + 1
                gene["variants"][f"v{vid}"] = {"kind": "ins", "g": gg, "ref": "", "alt": alt, "id": f"v{vid}",
                                               "region": _region_of(gene, gg), "func": func, "rsid": "-"}
                ids.append(f"v{vid}")
            taken.append((g, g + d + 2))
            gene["cis_pair"] = ids
            break
    # two catalogued variants a few bases apart (or touching): indel + indel, substitution on the base an
    # insertion is anchored to / next to a deletion, adjacent substitutions
    if opts.get("close_pair"):
        kind = opts["close_pair"]
        for _ in range(600):
            _, ra, rb = rng.choice(inner)
            if rb - ra < 40:
                continue
            g = rng.randint(ra + 8, rb - 28)
            if not clear(g - 6, g + 10 + opts.get("close_d", (1, 8))[1]):
                continue
            d = rng.randint(*opts.get("close_d", (1, 8)))
            x, y = rand_seq(rng, rng.randint(1, 4)), rand_seq(rng, rng.randint(1, 4))
            k1, k2 = rng.randint(1, 4), rng.randint(1, 4)
            off = rng.choice([0, 0, 1, 2, 3])  # substitution right next to the indel or a few bases away

            def ins_ok(gg, alt, left=None, right=None):
                lf, rt = left or seq[gg], right or seq[gg + 1]
                return alt[-1] != lf and alt[0] != rt and alt[-1] != seq[gg] and alt[0] != seq[gg + 1]

            def del_ok(gg, k):
                return seq[gg - 1] != seq[gg + k - 1] and seq[gg] != seq[gg + k]

            def snp(gg):
                return {"kind": "snp", "g": gg, "ref": seq[gg], "alt": rng.choice([c for c in "ACGT" if c != seq[gg]])}

            pair = None
            if kind == "ins_ins" and ins_ok(g, x) and ins_ok(g + d, y):
                pair = [{"kind": "ins", "g": g, "ref": "", "alt": x}, {"kind": "ins", "g": g + d, "ref": "", "alt": y}]
            elif kind == "del_del" and del_ok(g, k1) and del_ok(g + k1 + d, k2):
                pair = [{"kind": "del", "g": g, "ref": "".join(seq[g: g + k1]), "alt": ""},
                        {"kind": "del", "g": g + k1 + d, "ref": "".join(seq[g + k1 + d: g + k1 + d + k2]), "alt": ""}]
            elif kind == "ins_del" and ins_ok(g, x) and del_ok(g + 1 + d, k2):
                pair = [{"kind": "ins", "g": g, "ref": "", "alt": x},
                        {"kind": "del", "g": g + 1 + d, "ref": "".join(seq[g + 1 + d: g + 1 + d + k2]), "alt": ""}]
            elif kind == "del_ins" and del_ok(g, k1) and ins_ok(g + k1 + d, y):
                pair = [{"kind": "del", "g": g, "ref": "".join(seq[g: g + k1]), "alt": ""},
                        {"kind": "ins", "g": g + k1 + d, "ref": "", "alt": y}]
            elif kind == "snp_ins_anchor":
                sv = snp(g)
                if ins_ok(g, x, left=sv["alt"]):
                    pair = [{"kind": "ins", "g": g, "ref": "", "alt": x}, sv]
            elif kind == "snp_after_ins":
                sv = snp(g + 1 + off)
                if ins_ok(g, x, right=sv["alt"] if off == 0 else None):
                    pair = [{"kind": "ins", "g": g, "ref": "", "alt": x}, sv]
            elif kind == "snp_before_del" and del_ok(g, k1):
                sv = snp(g - 1 - off)
                if off or sv["alt"] != seq[g + k1 - 1]:
                    pair = [{"kind": "del", "g": g, "ref": "".join(seq[g: g + k1]), "alt": ""}, sv]
            elif kind == "snp_after_del" and del_ok(g, k1):
                sv = snp(g + k1 + off)
                if off or sv["alt"] != seq[g]:
                    pair = [{"kind": "del", "g": g, "ref": "".join(seq[g: g + k1]), "alt": ""}, sv]
            elif kind == "snp_snp":
                pair = [snp(g), snp(g + rng.choice([1, 1, 2]))]
            elif kind == "snp_under_del":
                # a substitution on a base that another allele deletes (not its first base): trans only
                kk = rng.randint(2, 4)
                if del_ok(g, kk):
                    pair = [{"kind": "del", "g": g, "ref": "".join(seq[g: g + kk]), "alt": ""}, snp(g + rng.randint(1, kk - 1))]
                    gene["no_cis"] = True
            elif kind == "mnp_inner_snp":
                # a multi-nucleotide substitution whose last base change is also catalogued on its own
                kk = rng.choice([2, 3, 3])
                ref_ = "".join(seq[g: g + kk])
                alt_ = "".join(rng.choice([c for c in "ACGT" if c != r_]) for r_ in ref_)
                pair = [{"kind": "mnp", "g": g, "ref": ref_, "alt": alt_},
                        {"kind": "snp", "g": g + kk - 1, "ref": ref_[-1], "alt": alt_[-1]}]
                gene["no_cis"] = True
            if not pair:
                continue
            ids = []
            for w, func in zip(pair, (True, rng.random() < 0.5 or bool(opts.get("close_func")))):
                vid = max([int(k[1:]) for k in gene["variants"]] + [0]) + 1
                gene["variants"][f"v{vid}"] = dict(w, id=f"v{vid}", region=_region_of(gene, w["g"]), func=func, rsid="-")
                ids.append(f"v{vid}")
            taken.append((g - 2, g + 18))
            gene["cis_pair"] = ids
            gene["close_kind"] = kind
            break


def _gen_alleles(rng, gene, opts):
    """Star-allele table.  Major alleles are distinguished by their functional
    variants; sub-alleles add silent ones."""
    vs = gene["variants"]
    cis = gene.get("cis_pair") or []
    func = [k for k in vs if vs[k]["func"] and k not in cis]
    silent = [k for k in vs if not vs[k]["func"] and k not in cis]
    alleles = [{"name": "1.001", "kind": "normal", "vars": []}]
    if silent and rng.random() < 0.8:
        alleles.append({"name": "1.002", "kind": "normal", "vars": [rng.choice(silent)]})
    if opts.get("sibling_alts"):
        # two sub-alleles of *1 that carry different silent substitutions at one position
        ssnp = [k for k in silent if vs[k]["kind"] == "snp"
                and sum(1 for x in vs.values() if x["g"] == vs[k]["g"]) == 1]
        if ssnp:
            k = ssnp[0]
            nid = "v%d" % (max(int(x[1:]) for x in vs) + 1)
            vs[nid] = dict(vs[k], id=nid, rsid="-", func=False,
                           alt=[x for x in "ACGT" if x not in (vs[k]["ref"], vs[k]["alt"])][0])
            n0 = len(alleles)
            alleles.append({"name": f"1.{n0 + 1:03d}", "kind": "normal", "vars": [k]})
            alleles.append({"name": f"1.{n0 + 2:03d}", "kind": "normal", "vars": [nid]})
    nmaj = opts["n_major"]
    used_sets = {()}
    num = 2
    reserved = []
    if opts.get("orphan_core") == "always":
        # set two core substitutions aside for the orphan allele (below) so that no other allele uses them
        pool = [f for f in func if vs[f]["kind"] == "snp" and not vs[f].get("edge")
                and sum(1 for x in vs.values() if x["g"] == vs[f]["g"]) == 1]
        if len(pool) >= 2 and len(func) >= 3:
            reserved = pool[-2:]
            func = [f for f in func if f not in reserved]
    # singles first, then combinations (ambiguous catalogues on request)
    cand = []
    # variants on the edge of the mapped range come first so that they always get an allele
    func = sorted(func, key=lambda k: not vs[k].get("edge"))
    for f in func:
        cand.append((f,))
    if opts.get("ambiguous") and len(func) >= 2:
        a, b = rng.sample(func, 2)
        if opts["ambiguous"] == "mnp" and any(vs[k]["kind"] == "mnp" for k in func):
            # one of the pair is a multi-nucleotide substitution, the other its nearest core neighbour
            a = rng.choice([k for k in func if vs[k]["kind"] == "mnp"])
            b = min((k for k in func if k != a), key=lambda k: abs(vs[k]["g"] - vs[a]["g"]))
        # both singles and their combination come first (so that all three get an allele)
        comb = tuple(sorted((a, b)))
        cand = [(a,), (b,), comb] + [c for c in cand if c not in ((a,), (b,), comb)]
    else:
        for _ in range(len(func)):
            k = rng.randint(2, min(3, len(func))) if len(func) >= 2 else 1
            cand.append(tuple(sorted(rng.sample(func, k))))
    if opts.get("ambiguous"):
        nmaj = max(nmaj, 3)
    nadded = 0
    for c in cand:
        if nadded >= nmaj:
            break
        if c in used_sets:
            continue
        used_sets.add(c)
        nadded += 1
        sub = 1
        base = list(c)
        alleles.append({"name": f"{num}.{sub:03d}", "kind": "normal", "vars": base})
        # sub-alleles with silent additions
        nsub = rng.choice([0, 1, 1, 2]) if silent else 0
        seen = {()}
        for _ in range(nsub):
            k = rng.randint(1, min(2, len(silent)))
            extra = tuple(sorted(rng.sample(silent, k)))
            if extra in seen:
                continue
            seen.add(extra)
            sub += 1
            alleles.append(
                {"name": f"{num}.{sub:03d}", "kind": "normal", "vars": base + list(extra)}
            )
        num += 1
    if opts.get("orphan_core"):
        # an allele defined by two core variants none of which has an allele of its own: seeing only
        # one of them leaves that variant without any usable carrier
        used_now = {v for a in alleles for v in a["vars"]}
        free = reserved + [f for f in func if f not in used_now and vs[f]["kind"] in ("snp", "mnp")]
        free = [f for i, f in enumerate(free) if all(vs[f]["g"] != vs[x]["g"] for x in free[:i])]
        if len(free) >= 2:
            alleles.append({"name": f"{num}.001", "kind": "normal", "vars": free[:2]})
            num += 1
    if cis and gene.get("no_cis"):
        # the two cannot sit on one haplotype: each gets an allele of its own
        a, b = cis
        alleles.append({"name": f"{num}.001", "kind": "normal", "vars": [a]})
        num += 1
        if vs[b]["func"]:
            alleles.append({"name": f"{num}.001", "kind": "normal", "vars": [b]})
            num += 1
        else:
            n1 = sum(1 for x in alleles if x["name"].startswith("1."))
            alleles.append({"name": f"1.{n1 + 1:03d}", "kind": "normal", "vars": [b]})
    elif cis:
        a, b = cis
        if vs[b]["func"]:
            alleles.append({"name": f"{num}.001", "kind": "normal", "vars": [a, b]})
            alleles.append({"name": f"{num + 1}.001", "kind": "normal", "vars": [a]})
            num += 2
        else:
            alleles.append({"name": f"{num}.001", "kind": "normal", "vars": [a, b]})
            alleles.append({"name": f"{num}.002", "kind": "normal", "vars": [a]})
            num += 1
        if gene.get("close_kind"):
            # the second variant on its own as well
            if vs[b]["func"]:
                alleles.append({"name": f"{num}.001", "kind": "normal", "vars": [b]})
                num += 1
            else:
                n1 = sum(1 for x in alleles if x["name"].startswith("1."))
                alleles.append({"name": f"1.{n1 + 1:03d}", "kind": "normal", "vars": [b]})
    rnames = [r[0] for r in gene["regions"]]
    inner = rnames[1:-1]
    if opts.get("deletion"):
        alleles.append({"name": f"{num}.001", "kind": "deletion", "vars": []})
        num += 1
    if gene["pseudo"] and opts.get("lfusion"):
        brk = rng.choice(inner[1:])  # something of the pseudogene must be kept
        alleles.append({"name": f"{num}.001", "kind": "lfusion", "brk": brk, "vars": []})
        num += 1
    if gene["pseudo"] and opts.get("rfusion"):
        brk = rng.choice(inner[1:])
        # a right fusion may carry its own core variant in the retained part
        alleles.append({"name": f"{num}.001", "kind": "rfusion", "brk": brk, "vars": []})
        num += 1
    if opts.get("custom_del"):
        k = rng.randint(1, 2)
        regs = rng.sample(inner, min(k, len(inner)))
        alleles.append({"name": f"{num}.001", "kind": "custom", "regions": sorted(regs), "vars": []})
        num += 1
    # a haplotype cannot carry two variants at one position (multi-allelic sites)
    for a in alleles:
        seen_pos, keep = set(), []
        for v in a["vars"]:
            site = (vs[v]["g"], vs[v]["kind"] == "ins")
            if site in seen_pos:
                continue
            seen_pos.add(site)
            keep.append(v)
        a["vars"] = keep
    # ... which may have made two alleles identical: keep the first of each variant set
    uniq, seen_sets = [], set()
    for a in alleles:
        key = (a["kind"], a.get("brk"), tuple(sorted(a["vars"])))
        if a["kind"] == "normal" and key in seen_sets:
            continue
        seen_sets.add(key)
        uniq.append(a)
    alleles = uniq
    gene["alleles"] = alleles
    used = {v for a in alleles for v in a["vars"]}
    gene["unused_variants"] = {k: v for k, v in gene["variants"].items() if k not in used}
    gene["variants"] = {k: v for k, v in gene["variants"].items() if k in used}
    if opts.get("tandem") and num > 3:
        gene["tandems"] = [["2", "1"]]


DEFAULT_GENE_OPTS = dict(
    gene_len=600,
    strand="+",
    n_exons=3,
    n_variants=6,
    kinds=["snp", "snp", "snp", "del", "ins", "mnp"],
    n_major=3,
    deletion=True,
    lfusion=False,
    rfusion=False,
    ambiguous=False,
    tandem=False,
    cn_subset=False,
)


def gen_world(rng, n_genes=1, gene_opts=None, read_opts=None, margin=300):
    """A contig with `n_genes` genes (+ pseudogenes) and a neutral region."""
    gene_opts = gene_opts or [{}] * n_genes
    read = dict(L=100, step=5, paired=False)
    read.update(read_opts or {})
    pos = 3000 + rng.randint(0, 500)
    layout = []
    for gi in range(n_genes):
        o = dict(DEFAULT_GENE_OPTS)
        o.update(gene_opts[gi])
        n = o["gene_len"]
        g0 = pos + margin
        pos = g0 + n + margin
        p0 = None
        if o.get("pseudo", True):
            p0 = pos + margin + rng.randint(0, 50)
            pos = p0 + n + margin
        layout.append((o, g0, p0))
    c0 = pos + margin + rng.randint(0, 100)
    clen = rng.randint(300, 800)
    c1 = c0 + clen
    total = c1 + margin + 500
    contig = list(rand_seq(rng, total))
    genes = []
    for gi, (o, g0, p0) in enumerate(layout):
        name = o.get("name") or ("SIM" + "ABCDEFGH"[gi])
        genes.append(gen_gene(rng, name, contig, g0, p0, o))
    return {
        "contig": {"name": "sim1", "seq": "".join(contig)},
        "genes": genes,
        "neutral": [c0, c1],
        "reads": read,
        "margin": margin,
        "hg38_shift": 1000 + rng.randint(0, 400),
    }


# --------------------------------------------------------------------------
# database text


def _refnot(gene, v):
    """RefSeq-notation [pos(1-based), op] of genome-level variant v."""
    g0, g1, strand = gene["g0"], gene["g1"], gene["strand"]
    g, ref, alt = v["g"], v["ref"], v["alt"]
    k = v["kind"]
    if strand == "+":
        p = g - g0 + 1
        if k in ("snp", "mnp"):
            return [p, f"{ref}>{alt}"]
        if k == "del":
            return [p, f"del{ref}"]
        return [p, f"ins{alt}"]
    if k in ("snp", "mnp"):
        return [g1 - g - len(ref) + 1, f"{rc(ref)}>{rc(alt)}"]
    if k == "del":
        return [g1 - g - len(ref) + 1, f"del{rc(ref)}"]
    return [g1 - 1 - g, f"ins{rc(alt)}"]


def expected_mutation(v, shift=0):
    """(pos, op) aldy should hold for v after loading (genome level)."""
    k = v["kind"]
    if k in ("snp", "mnp"):
        return (v["g"] + shift, f"{v['ref']}>{v['alt']}")
    if k == "del":
        return (v["g"] + shift, f"del{v['ref']}")
    return (v["g"] + shift, f"ins{v['alt']}")


def gene_yaml(world, gene):
    """Database text for one gene (both builds; hg38 = hg19 shifted)."""
    sh = world["hg38_shift"]
    contig = world["contig"]["seq"]
    g0, g1 = gene["g0"], gene["g1"]
    body = contig[g0:g1]
    seq = body if gene["strand"] == "+" else rc(body)
    name = gene["name"]
    L = []
    L.append(f"name: {name}")
    L.append("version: sim-1.0")
    L.append("generated: '2026-01-01'")
    L.append("alleles:")
    for a in gene["alleles"]:
        L.append(f"  {name}*{a['name']}:")
        num, sub = a["name"].split(".")
        L.append(f"    label: {name}*{num}" + ("" if sub == "001" else f"x{int(sub)}"))
        if a["name"] == "1.001":
            L.append("    activity: normal function")
        muts = []
        if a["kind"] == "deletion":
            muts.append(f"[{name}, deletion]")
        elif a["kind"] == "lfusion":
            muts.append(f"[{gene['pseudo']}, '{a['brk']}-']")
        elif a["kind"] == "rfusion":
            muts.append(f"[{gene['pseudo']}, '{a['brk']}+']")
        elif a["kind"] == "custom":
            muts.append(f"[{name}, 'deletion:{','.join(a['regions'])}']")
        for vid in a["vars"]:
            v = gene["variants"][vid]
            p, op = _refnot(gene, v)
            info = f"'{v['rsid']}'"
            if v["func"]:
                info += f", func{vid}"
            muts.append(f"[{p}, '{op}', {info}]")
        if muts:
            L.append("    mutations:")
            for m in muts:
                L.append(f"    - {m}")
        else:
            L.append("    mutations: []")
    L.append("structure:")
    glist = [name] + ([gene["pseudo"]] if gene["pseudo"] else [])
    L.append(f"  genes: [{', '.join(glist)}]")
    L.append("  regions:")
    for build, shift in (("hg19", 0), ("hg38", sh)):
        L.append(f"    {build}:")
        for i, (nm, a, b) in enumerate(gene["regions"]):
            if nm[0] == "i":
                continue  # introns are filled in by the loader
            co = [a + 1 + shift, b + 1 + shift]
            if gene["pregions"]:
                _, pa, pb = gene["pregions"][i]
                co += [pa + 1 + shift, pb + 1 + shift]
            L.append(f"      {nm}: [{', '.join(map(str, co))}]")
    L.append(f"  cn_regions: [{', '.join(gene['cn_regions'])}]")
    if gene["tandems"]:
        L.append("  tandems: [" + ", ".join("['%s', '%s']" % tuple(t) for t in gene["tandems"]) + "]")
    L.append("reference:")
    L.append(f"  name: NG_{name}")
    L.append("  mappings:")
    cname = world["contig"]["name"]
    for build, shift in (("hg19", 0), ("hg38", sh)):
        L.append(
            f"    {build}: ['{cname}', {g0 + 1 + shift}, {g1 + 1 + shift}, '{gene['strand']}', M{g1 - g0}]"
        )
    L.append("  exons:")
    for a, b in gene["exons_ref"]:
        L.append(f"  - [{a + 1}, {b + 1}]")
    L.append("  seq: |-")
    for i in range(0, len(seq), 80):
        L.append("    " + seq[i : i + 80])
    return "\n".join(L) + "\n"


# --------------------------------------------------------------------------
# haplotypes and reads


def _allele(gene, name):
    for a in gene["alleles"]:
        if a["name"] == name:
            return a
    raise KeyError(name)


def _region_rank(gene):
    return {r[0]: i for i, r in enumerate(gene["regions"])}


def unit_cn(gene, unit):
    """Per-region copy number contributed by a haplotype unit: (gene, pseudo)."""
    rnames = [r[0] for r in gene["regions"]]
    rank = _region_rank(gene)
    t = unit["type"]
    if t == "normal":
        return {r: 1 for r in rnames}, {r: 1 for r in rnames}
    if t == "extra":
        return {r: 1 for r in rnames}, {r: 0 for r in rnames}
    if t == "deletion":
        return {r: 0 for r in rnames}, {r: 1 for r in rnames}
    brk = _allele(gene, unit["allele"])["brk"]
    if t == "lfusion":
        return (
            {r: int(rank[r] >= rank[brk]) for r in rnames},
            {r: int(rank[r] < rank[brk]) for r in rnames},
        )
    if t == "rfusion":
        return (
            {r: int(rank[r] < rank[brk]) for r in rnames},
            {r: 1 + int(rank[r] >= rank[brk]) for r in rnames},
        )
    raise ValueError(t)


def unit_variants(gene, unit):
    """Variant ids carried by the gene part of a unit (only in retained regions)."""
    t = unit["type"]
    if t == "deletion":
        return []
    if t in ("normal", "extra"):
        return list(_allele(gene, unit["allele"])["vars"])
    gcn, _ = unit_cn(gene, unit)
    if t == "lfusion":
        src = _allele(gene, unit["parent"])["vars"]
    else:
        src = _allele(gene, unit["allele"])["vars"]
    return [v for v in src if gcn[gene["variants"][v]["region"]] > 0]


def _haplotype(contig, z0, z1, variants):
    """Columns of a haplotype over reference [z0, z1): list of (base, refpos|-1)."""
    cols = []
    ev = sorted(variants, key=lambda v: (v["g"], v["kind"] == "ins"))
    i = z0
    for v in ev:
        g = v["g"]
        k = v["kind"]
        if k in ("snp", "mnp"):
            while i < g:
                cols.append((contig[i], i))
                i += 1
            for j, c in enumerate(v["alt"]):
                cols.append((contig[g + j] if c == "." else c, g + j))
            i = g + len(v["alt"])
        elif k == "del":
            while i < g:
                cols.append((contig[i], i))
                i += 1
            i = g + len(v["ref"])
        else:  # ins after g
            while i <= g:
                cols.append((contig[i], i))
                i += 1
            for c in v["alt"]:
                cols.append((c, -1))
    while i < z1:
        cols.append((contig[i], i))
        i += 1
    return cols


def _emit(cols, s, e, present):
    """Alignment(s) of haplotype columns [s, e): list of (ref_start, cigar, seq).
    `present` is a list of reference intervals that exist in this unit; a read is
    cut into the pieces lying inside them (absent parts are clipped away)."""
    out = []
    cur = None  # [ref_start, ops, seq, last_ref]

    def flush():
        nonlocal cur
        if cur and any(op == 0 for op, _ in cur[1]):
            ops = cur[1]
            # trailing insertion -> soft clip
            if ops[-1][0] == 1:
                ops[-1] = (4, ops[-1][1])
            out.append((cur[0], ops, "".join(cur[2])))
        cur = None

    def inside(p):
        for a, b in present:
            if a <= p < b:
                return True
        return False

    pend_ins = []  # inserted bases before the first match of a piece -> soft clip
    for j in range(s, e):
        base, rp = cols[j]
        if rp < 0:
            if cur is None:
                pend_ins.append(base)
            else:
                if cur[1][-1][0] == 1:
                    cur[1][-1] = (1, cur[1][-1][1] + 1)
                else:
                    cur[1].append((1, 1))
                cur[2].append(base)
            continue
        if not inside(rp):
            flush()
            pend_ins = []
            continue
        if cur is None:
            cur = [rp, [], [], rp - 1]
            if pend_ins:
                cur[1].append((4, len(pend_ins)))
                cur[2].extend(pend_ins)
                pend_ins = []
        gap = rp - cur[3] - 1
        if gap > 0:
            # a deletion, unless the gap crosses an absent interval
            if all(inside(q) for q in range(cur[3] + 1, rp)):
                cur[1].append((2, gap))
            else:
                flush()
                cur = [rp, [], [], rp - 1]
        if cur[1] and cur[1][-1][0] == 0:
            cur[1][-1] = (0, cur[1][-1][1] + 1)
        else:
            cur[1].append((0, 1))
        cur[2].append(base)
        cur[3] = rp
    flush()
    return out


def _query_offset(ref_start, ops, g):
    """Offset in the read sequence of reference position g (None if not a match)."""
    r, q = ref_start, 0
    for op, n in ops:
        if op == 0:
            if r <= g < r + n:
                return q + (g - r)
            r += n
            q += n
        elif op == 2:
            r += n
        elif op in (1, 4):
            q += n
    return None


def _tile(cols, L, step, phase, present, tag, reads):
    n = len(cols)
    s = phase - L + 1
    # align s to phase modulo step
    while s % step != phase % step:
        s += 1
    k = 0
    while s < n:
        a, b = max(0, s), min(n, s + L)
        if b > a:
            for ref_start, ops, seq in _emit(cols, a, b, present):
                reads.append((ref_start, ops, seq, f"{tag}.{k}"))
        k += 1
        s += step
    return reads


def _intervals(regions, cn, margin_lo, margin_hi):
    """Reference intervals present for a body given per-region copy flags;
    flanks follow the outermost present region."""
    iv = []
    regs = sorted((a, b, nm) for nm, a, b in regions)
    for i, (a, b, nm) in enumerate(regs):
        if cn[nm] > 0:
            lo = a - (margin_lo if i == 0 else 0)
            hi = b + (margin_hi if i == len(regs) - 1 else 0)
            iv.append([lo, hi])
    # merge
    out = []
    for a, b in sorted(iv):
        if out and a <= out[-1][1]:
            out[-1][1] = max(out[-1][1], b)
        else:
            out.append([a, b])
    return out


def sample_reads(world, sample):
    """All reads of a sample: list of (ref_start, cigar ops, seq, name)."""
    contig = world["contig"]["seq"]
    L, step = world["reads"]["L"], world["reads"]["step"]
    M = world["margin"] - 20
    reads = []
    phase_rng = random.Random(sample.get("phase_seed", 0))
    for gene in world["genes"]:
        units = sample["genes"].get(gene["name"])
        if units is None:
            continue
        for ui, unit in enumerate(units):
            gcn, pcn = unit_cn(gene, unit)
            # gene part
            if any(gcn.values()):
                vs = [gene["variants"][v] for v in unit_variants(gene, unit)]
                z0, z1 = gene["g0"] - M, gene["g1"] + M
                cols = _haplotype(contig, z0, z1, vs)
                present = _intervals(gene["regions"], gcn, M, M)
                n0 = len(reads)
                _tile(cols, L, step, phase_rng.randint(0, step - 1), present,
                      f"{gene['name']}u{ui}g", reads)
                if unit.get("depth", 1.0) < 1.0:
                    drng = random.Random(f"{sample.get('phase_seed', 0)}:depth:{ui}")
                    reads[n0:] = [r for r in reads[n0:] if drng.random() < unit["depth"]]
                # noise: a fraction of this copy's reads show an extra SNP
                for nz in unit.get("noise", []):
                    allv = dict(gene.get("unused_variants", {}))
                    allv.update(gene["variants"])
                    v = allv[nz["vid"]]
                    assert v["kind"] == "snp"
                    if gcn[v["region"]] == 0 or any(
                            w["g"] <= v["g"] < w["g"] + max(1, len(w["ref"])) for w in vs):
                        continue
                    nrng = random.Random(f"{sample.get('phase_seed', 0)}:{ui}:{nz['vid']}")
                    for ri in range(n0, len(reads)):
                        rs, ops_, seq, nm = reads[ri]
                        off = _query_offset(rs, ops_, v["g"])
                        if off is not None and nrng.random() < nz["frac"]:
                            reads[ri] = (rs, ops_, seq[:off] + v["alt"] + seq[off + 1:], nm)
            if gene["pregions"]:
                p0 = gene["p0"]
                p1 = p0 + gene["g1"] - gene["g0"]
                z0, z1 = p0 - M, p1 + M
                mx = max(pcn.values())
                for c in range(mx):
                    flags = {r: int(pcn[r] > c) for r in pcn}
                    if not any(flags.values()):
                        continue
                    # optional private variants of this pseudogene copy (real pseudogenes are polymorphic too)
                    pv = [v for v in unit.get("pseudo_vars", []) if v.get("copy", 0) == c]
                    cols = _haplotype(contig, z0, z1, pv)
                    present = _intervals(gene["pregions"], flags, M, M)
                    _tile(cols, L, step, phase_rng.randint(0, step - 1), present,
                          f"{gene['name']}u{ui}p{c}", reads)
    # depth noise: thin out the reads starting inside a region of one locus
    for th in sample.get("thin", []):
        gene = next(g for g in world["genes"] if g["name"] == th["gene"])
        regs = gene["regions"] if th.get("which", "gene") == "gene" else gene["pregions"]
        if not regs:
            continue
        a, b = next((a, b) for nm, a, b in regs if nm == th["region"])
        trng = random.Random(f"{sample.get('phase_seed', 0)}:thin:{th['gene']}:{th['region']}")
        tagp = f"{th['gene']}u"
        reads = [r for r in reads
                 if not (a <= r[0] < b and r[3].startswith(tagp) and trng.random() < th["p"])]
    # neutral region: two copies
    c0, c1 = world["neutral"]
    # reads of the neutral locus normally cover the declared region with a margin; a world may say that
    # they cover less than the region (positions of the region without any read)
    z0, z1 = world.get("neutral_zone") or [c0 - M, c1 + M]
    for c in range(sample.get("neutral_copies", 2)):
        cols = _haplotype(contig, z0, z1, [])
        _tile(cols, L, step, phase_rng.randint(0, step - 1), [[z0, z1]],
              f"n{c}", reads)
    # sequencing-style insertions: a fraction of the reads carries a short inserted run
    if sample.get("random_ins"):
        irng = random.Random(f"{sample.get('phase_seed', 0)}:ins")
        out = []
        for rs, ops_, seq, nm in reads:
            if irng.random() < sample["random_ins"] and len(ops_) == 1 and ops_[0][0] == 0 and ops_[0][1] > 30:
                n = ops_[0][1]
                at = irng.randint(10, n - 10)
                k = irng.randint(1, 2)
                ins = "".join(irng.choice("ACGT") for _ in range(k))
                out.append((rs, [(0, at), (1, k), (0, n - at)], seq[:at] + ins + seq[at:], nm))
            else:
                out.append((rs, ops_, seq, nm))
        reads = out
    # sequencing-style deletions: a fraction of the reads skips a short run of reference bases
    if sample.get("random_del"):
        drng = random.Random(f"{sample.get('phase_seed', 0)}:del")
        out = []
        for rs, ops_, seq, nm in reads:
            if drng.random() < sample["random_del"] and len(ops_) == 1 and ops_[0][0] == 0 and ops_[0][1] > 30:
                n = ops_[0][1]
                k = drng.randint(1, 3)
                at = drng.randint(10, n - 10 - k)
                out.append((rs, [(0, at), (2, k), (0, n - at - k)], seq[:at] + seq[at + k:], nm))
            else:
                out.append((rs, ops_, seq, nm))
        reads = out
    # aligner-style soft clips: a fraction of the reads gets its first / last bases clipped
    if sample.get("softclip"):
        srng = random.Random(f"{sample.get('phase_seed', 0)}:softclip")
        out = []
        for rs, ops_, seq, nm in reads:
            if srng.random() < sample["softclip"] and ops_ and ops_[0][0] == 0 and ops_[0][1] > 12 \
                    and ops_[-1][0] == 0 and ops_[-1][1] > 12:
                k = srng.randint(1, 6)
                ops2 = list(ops_)
                if srng.random() < 0.5:
                    ops2[0] = (0, ops2[0][1] - k)
                    ops2.insert(0, (4, k))
                    rs += k
                else:
                    ops2[-1] = (0, ops2[-1][1] - k)
                    ops2.append((4, k))
                out.append((rs, ops2, seq, nm))
            else:
                out.append((rs, ops_, seq, nm))
        reads = out
    return reads


def pair_names(reads, rng_seed, frac=0.5):
    """Give some reads of the same haplotype unit a common name (mates)."""
    rng = random.Random(rng_seed)
    by_tag = {}
    for i, r in enumerate(reads):
        by_tag.setdefault(r[3].rsplit(".", 1)[0], []).append(i)
    out = list(reads)
    for tag, idx in sorted(by_tag.items()):
        idx = sorted(idx, key=lambda i: out[i][0])
        for a in range(0, len(idx) - 40, 1):
            if rng.random() < frac and not out[idx[a]][3].endswith("m"):
                b = a + rng.randint(20, 40)
                if out[idx[b]][3].endswith("m"):
                    continue
                nm = out[idx[a]][3] + "m"
                out[idx[a]] = out[idx[a]][:3] + (nm,)
                out[idx[b]] = out[idx[b]][:3] + (nm,)
    return out


# --------------------------------------------------------------------------
# containers

CIGAR_CH = "MIDNSHP=X"


def write_bam(path, world, reads, build="hg19", sort=True, index=True, mapq=60,
              baseq=40, fmt="bam", extra_records=None, header_extra=None, lowq=None, dup=1, omit_main=False,
              omit_neutral_contig=False, chr_prefix=False):
    """`lowq` = {"seed", "frac", "kind": "base" | "mapq" | "both", "shape": "random" | "front" | "back"}:
    a fraction of the records gets a mapping quality below aldy's threshold or scattered base qualities of 5
    (unevenly along the file order with shape front / back).  `dup` = k: every read is written k times
    (names suffixed), for ultra-deep samples."""
    import pysam

    shift = world["hg38_shift"] if build == "hg38" else 0
    cname = world["contig"]["name"]
    if chr_prefix:
        cname = "chr" + cname  # (the file names its contigs chr<name>, the database says <name>)
    clen = len(world["contig"]["seq"]) + shift
    sq = [{"SN": cname, "LN": clen}]
    if header_extra:
        sq += header_extra
    header = pysam.AlignmentHeader.from_dict(
        {"HD": {"VN": "1.6", "SO": "coordinate" if sort else "unsorted"}, "SQ": sq}
    )
    recs = []
    nc = world.get("neutral_contig")
    if nc:
        sq.insert(1, {"SN": ("chr" if chr_prefix else "") + nc["name"], "LN": clen + abs(nc["offset"])})
        header = pysam.AlignmentHeader.from_dict(
            {"HD": {"VN": "1.6", "SO": "coordinate" if sort else "unsorted"}, "SQ": sq}
        )
    for ref_start, ops, seq, name in reads:
        if nc and name.startswith("n"):
            # reads of the neutral locus: second contig
            recs.append((ref_start + nc["offset"] + shift, ops, seq, name, 0, mapq, baseq, 1))
        else:
            recs.append((ref_start + shift, ops, seq, name, 0, mapq, baseq))
    if extra_records:
        recs += extra_records
    if omit_main:
        # a header without the genes' contig (and without its reads): what is left are the records of the
        # other contigs, renumbered
        sq = sq[1:]
        header = pysam.AlignmentHeader.from_dict(
            {"HD": {"VN": "1.6", "SO": "coordinate" if sort else "unsorted"}, "SQ": sq}
        )
        recs = [r[:7] + (r[7] - 1,) for r in recs if len(r) > 7 and r[7] >= 1]
    if omit_neutral_contig and nc:
        # a header without the chromosome of the neutral locus (and without its reads)
        sq = [sq[0]] + sq[2:]
        header = pysam.AlignmentHeader.from_dict(
            {"HD": {"VN": "1.6", "SO": "coordinate" if sort else "unsorted"}, "SQ": sq}
        )
        recs = [r for r in recs if len(r) <= 7 or r[7] == 0]
    if dup > 1:
        recs = [r[:3] + (f"{r[3]}x{k}",) + r[4:] for r in recs for k in range(dup)]
    if sort:
        recs.sort(key=lambda r: (r[7] if len(r) > 7 else 0, r[0], r[3]))
    mode = {"bam": "wb", "sam": "w"}[fmt]
    with pysam.AlignmentFile(path, mode, header=header) as f:
        for ri, rec in enumerate(recs):
            ref_start, ops, seq, name, flag, mq, bq = rec[:7]
            quals = None
            if lowq:
                qr = random.Random(f"{lowq['seed']}:{name}:{ref_start}")
                frac = lowq["frac"]
                if lowq.get("shape") == "front":
                    frac = min(0.9, 2 * frac) if ri < len(recs) // 2 else 0.0
                elif lowq.get("shape") == "back":
                    frac = min(0.9, 2 * frac) if ri >= len(recs) // 2 else 0.0
                if qr.random() < frac:
                    kind = lowq.get("kind", "base")
                    if kind in ("mapq", "both") and (kind == "mapq" or qr.random() < 0.5):
                        mq = qr.choice([0, 5, 9])
                    else:
                        pb = qr.choice([0.1, 0.3, 1.0])
                        quals = "".join(chr(33 + (5 if qr.random() < pb else bq)) for _ in seq)
            a = pysam.AlignedSegment(header)
            a.query_name = name
            a.flag = flag
            a.reference_id = rec[7] if len(rec) > 7 else 0
            a.reference_start = ref_start
            a.mapping_quality = mq
            a.cigartuples = ops
            a.query_sequence = seq
            a.query_qualities = pysam.qualitystring_to_array(quals or chr(33 + bq) * len(seq))
            f.write(a)
    if index and fmt == "bam":
        pysam.index(path)
    return path


def materialise_db(world, dirpath):
    paths = {}
    for gene in world["genes"]:
        p = os.path.join(dirpath, gene["name"].lower() + ".yml")
        with open(p, "w") as f:
            f.write(gene_yaml(world, gene))
        paths[gene["name"]] = p
    return paths


def reference_sample(world):
    """Two plain reference copies of everything."""
    return {
        "name": "ref",
        "genes": {
            g["name"]: [
                {"type": "normal", "allele": "1.001"},
                {"type": "normal", "allele": "1.001"},
            ]
            for g in world["genes"]
        },
        "phase_seed": 1,
    }


def neutral_arg(world, build="hg19", sub=None):
    """The copy-number-neutral region as a command-line argument (`sub`: another interval, in the
    coordinates of world["neutral"]).  With world["neutral_contig"] = {"name", "offset"} the neutral reads
    live on a second contig (write_bam puts them there), `offset` bases further on."""
    shift = world["hg38_shift"] if build == "hg38" else 0
    c0, c1 = sub or world["neutral"]
    nc = world.get("neutral_contig")
    if nc:
        return f"{nc['name']}:{c0 + nc['offset'] + shift}-{c1 + nc['offset'] + shift}"
    return f"{world['contig']['name']}:{c0 + shift}-{c1 + shift}"


# --------------------------------------------------------------------------
# planted truth


def planted_structure(gene, units):
    """Configuration multiset aldy should report, in catalogue naming
    (major name = allele number; '1' for plain copies)."""
    out = []
    for u in units:
        t = u["type"]
        if t in ("normal", "extra"):
            out.append("1")
        elif t == "deletion":
            continue  # implicit
        else:
            out.append(u["allele"].split(".")[0])
    return sorted(out)


def planted_majors(gene, units):
    out = []
    for u in units:
        t = u["type"]
        if t == "deletion":
            continue
        if t in ("normal", "extra"):
            out.append(u["allele"].split(".")[0])
        elif t == "lfusion":
            out.append(u["allele"].split(".")[0] + "#" + u["parent"].split(".")[0])
        else:
            out.append(u["allele"].split(".")[0])
    return sorted(out)


def planted_variants(gene, units, shift=0):
    """Multiset (sorted list) of loaded-form mutations over all gene copies."""
    out = []
    for u in units:
        for v in unit_variants(gene, u):
            out.append(expected_mutation(gene["variants"][v], shift))
    return sorted(out)

"""Process model: a pool of zygotes keyed by PYTHONHASHSEED."""

import json
import os
import subprocess
import sys
import tempfile
import threading
import time

HERE = os.path.dirname(os.path.abspath(__file__))
PY = "/venv/bin/python"
ZYGOTE = os.path.join(HERE, "zygote.py")


class HarnessError(Exception):
    def __init__(self, kind, detail=""):
        super().__init__(f"{kind}: {detail}")
        self.kind = kind
        self.detail = detail


class Zygote:
    def __init__(self, hashseed, repo=None):
        env = dict(os.environ)
        env["PYTHONHASHSEED"] = str(hashseed)
        env["PYTHONDONTWRITEBYTECODE"] = "1"
        if repo:
            env["ALDYSIM_REPO"] = repo
        self.hashseed = hashseed
        self.p = subprocess.Popen(
            [PY, ZYGOTE],
            stdin=subprocess.PIPE,
            stdout=subprocess.PIPE,
            stderr=subprocess.DEVNULL,
            env=env,
            text=True,
            bufsize=1,
        )
        line = self.p.stdout.readline()
        if not line:
            raise HarnessError("zygote", "zygote failed to start")
        self.busy = False
        self.last = time.monotonic()

    def call(self, req):
        self.p.stdin.write(json.dumps(req) + "\n")
        self.p.stdin.flush()
        line = self.p.stdout.readline()
        if not line:
            raise HarnessError("zygote", "zygote died")
        return json.loads(line)

    def close(self):
        try:
            self.p.stdin.close()
        except Exception:
            pass
        try:
            self.p.wait(timeout=5)
        except Exception:
            self.p.kill()


class ZygotePool:
    def __init__(self, max_procs=16, repo=None):
        self.max = max_procs
        self.repo = repo
        self.z = []
        self.cv = threading.Condition()
        self.spawned = 0
        self.starting = 0

    def _acquire(self, hashseed):
        with self.cv:
            while True:
                for z in self.z:
                    if not z.busy and z.hashseed == hashseed:
                        z.busy = True
                        return z
                if len(self.z) + self.starting < self.max:
                    self.starting += 1
                    break
                # retire an idle zygote with another seed
                idle = [z for z in self.z if not z.busy]
                if idle:
                    victim = min(idle, key=lambda z: z.last)
                    self.z.remove(victim)
                    victim.close()
                    self.starting += 1
                    break
                self.cv.wait(timeout=1.0)
        try:
            z = Zygote(hashseed, self.repo)
        finally:
            with self.cv:
                self.starting -= 1
        z.busy = True
        with self.cv:
            self.z.append(z)
            self.spawned += 1
        return z

    def _release(self, z, dead=False):
        with self.cv:
            z.busy = False
            z.last = time.monotonic()
            if dead and z in self.z:
                self.z.remove(z)
                z.close()
            self.cv.notify_all()

    def run(self, check, segment, timeout=120, child_log=None):
        """Execute one process segment in a fork of a zygote with the segment's
        hash seed.  Returns the result dict or raises HarnessError."""
        z = self._acquire(segment["hashseed"])
        dead = False
        try:
            req = {"check": check, "segment": segment, "timeout": timeout}
            if child_log:
                req["child_log"] = child_log
            resp = z.call(req)
        except HarnessError:
            dead = True
            raise
        finally:
            self._release(z, dead)
        if not resp.get("ok"):
            raise HarnessError(resp.get("harness", "error"), resp.get("detail", ""))
        return resp["result"]

    def close(self):
        with self.cv:
            zs, self.z = self.z, []
        for z in zs:
            z.close()


def run_cold(check, segment, timeout=600, repo=None):
    """Execute a segment in a brand-new interpreter (replay path)."""
    env = dict(os.environ)
    env["PYTHONHASHSEED"] = str(segment["hashseed"])
    env["PYTHONDONTWRITEBYTECODE"] = "1"
    if repo:
        env["ALDYSIM_REPO"] = repo
    with tempfile.NamedTemporaryFile("w", suffix=".json", dir=scratch_root(), delete=False) as f:
        json.dump({"check": check, "segment": segment}, f)
        path = f.name
    try:
        r = subprocess.run(
            [PY, ZYGOTE, "--once", path],
            stdout=subprocess.PIPE,
            stderr=subprocess.DEVNULL,
            env=env,
            text=True,
            timeout=3 * timeout,  # wall clock; generous, the machine may be busy
        )
    except subprocess.TimeoutExpired:
        raise HarnessError("timeout", f"cold segment exceeded {timeout}s")
    finally:
        os.unlink(path)
    lines = [l for l in r.stdout.splitlines() if l.startswith("{")]
    if not lines:
        raise HarnessError("crash", f"cold interpreter produced no response (rc={r.returncode})")
    resp = json.loads(lines[-1])
    if not resp.get("ok"):
        raise HarnessError(resp.get("harness", "error"), resp.get("detail", ""))
    return resp["result"]


def scratch_root():
    root = os.environ.get("VERIF_SCRATCH") or "/dev/shm"
    if not os.path.isdir(root) or not os.access(root, os.W_OK):
        root = tempfile.gettempdir()
    d = os.path.join(root, f"aldysim-{os.getpid()}")
    os.makedirs(d, exist_ok=True)
    return d

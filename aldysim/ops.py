"""Child-side building blocks shared by the checks: materialising a world into
files and driving aldy through its public entry points."""

import io
import os
import sys
import traceback

from . import canon
from . import world as W
from .seams import SIM


def materialise(world, dirpath, samples, build="hg19", profile_yaml=True, extra=None):
    """Write databases, reference sample, its profile (BAM and aldy-written YAML)
    and the given samples.  Returns a manifest of paths (relative to dirpath)."""
    os.makedirs(dirpath, exist_ok=True)
    man = {"db": {}, "samples": {}, "build": build}
    paths = W.materialise_db(world, dirpath)
    for g, p in paths.items():
        man["db"][g] = os.path.basename(p)
    ref = W.reference_sample(world)
    if extra and extra.get("ref_softclip"):
        ref["softclip"] = extra["ref_softclip"]
    if extra and extra.get("ref_random_ins"):
        ref["random_ins"] = extra["ref_random_ins"]
    if extra and extra.get("ref_random_del"):
        ref["random_del"] = extra["ref_random_del"]
    for g in world["genes"]:
        if g.get("no_reads"):
            ref["genes"].pop(g["name"], None)
    W.write_bam(os.path.join(dirpath, "ref.bam"), world, W.sample_reads(world, ref), build=build)
    man["ref_bam"] = "ref.bam"
    man["neutral"] = W.neutral_arg(world, build)
    if profile_yaml:
        man["profile_yml"] = write_profile_yaml(world, dirpath, "ref.bam", build, {},
                                                "refprofile.yml",
                                                absent_contig=bool(extra and extra.get("profile_absent_contig")))
    for name, smp in samples.items():
        reads = W.sample_reads(world, smp)
        if smp.get("no_neutral_reads"):
            reads = [r for r in reads if not r[3].startswith("n")]
        if smp.get("neutral_thin"):
            # thin cover of the neutral region: just enough reads for an average depth of 2 when the parts of the
            # reads that stick out of the region are counted, less than 2 inside the region itself
            import random as _random

            c0, c1 = world["neutral"]
            neutral = [r for r in reads if r[3].startswith("n") and r[0] < c1
                       and r[0] + sum(n for op, n in r[1] if op in (0, 2)) > c0]
            _random.Random(f"thin:{smp.get('phase_seed', 0)}").shuffle(neutral)
            keep, bases = [], 0
            for r in neutral:
                if bases >= smp["neutral_thin"] * (c1 - c0):
                    break
                keep.append(r)
                bases += sum(n for op, n in r[1] if op in (0, 2))
            reads = [r for r in reads if not r[3].startswith("n")] + keep
        if smp.get("paired"):
            reads = W.pair_names(reads, smp.get("phase_seed", 0))
        fn = f"{name}.bam"
        W.write_bam(os.path.join(dirpath, fn), world, reads, build=build, lowq=smp.get("lowq"),
                    dup=smp.get("dup", 1), header_extra=smp.get("header_extra"),
                    chr_prefix=bool(smp.get("chr_prefix")))
        man["samples"][name] = fn
    return man


def write_profile_yaml(world, dirpath, bam, build, params, outname, genes=None, absent_contig=False):
    """Profile text produced by aldy's own profile code (profile.py:305-416),
    dumped the way the CLI dumps it."""
    import yaml
    from aldy.common import parse_cn_region
    from aldy.gene import Gene
    from aldy.profile import Profile

    regions = {}
    for g in world["genes"]:
        if genes is not None and g["name"] not in genes:
            continue
        gg = Gene(os.path.join(dirpath, g["name"].lower() + ".yml"), genome=build)
        for gi, gr in enumerate(gg.regions):
            for r, rng in gr.items():
                regions[gg.name, r, gi] = rng
    if absent_contig:
        # `aldy profile` scans every shipped gene; most of their chromosomes are not in a panel's header.  One
        # such region (a chromosome that sorts before the simulated one and is not in the file): it must simply
        # stay empty
        from aldy.gene import GRange

        regions["ABSENT", "e1", 0] = GRange("1", 5000, 5600)
    d = Profile.get_sam_profile_data(
        os.path.join(dirpath, bam),
        regions=regions,
        cn_region=parse_cn_region(W.neutral_arg(world, build)),
        genome=build,
        params=params,
    )
    with open(os.path.join(dirpath, outname), "w") as f:
        f.write(yaml.dump(d, default_flow_style=None))
    return outname


def exc_info(ex):
    return {"type": type(ex).__name__, "msg": str(ex)[:400],
            "aldy": type(ex).__name__ == "AldyException"}


def run_genotype(db, sam, profile, out_path=None, cn_region=None, cn_solution=None,
                 genome=None, debug=None, is_simple=False, params=None, solver="cbc", report=False):
    """Call aldy.genotype.genotype(); returns a JSON-able record."""
    from aldy.common import parse_cn_region
    from aldy.genotype import genotype

    rec = {"result": None, "exc": None, "output": None}
    out = None
    try:
        if out_path:
            out = open(out_path, "w")
        res = genotype(
            db,
            sam,
            profile,
            output_file=out,
            cn_region=parse_cn_region(cn_region) if cn_region else None,
            cn_solution=cn_solution,
            solver=solver,
            debug=debug,
            genome=genome,
            is_simple=is_simple,
            report=report,
            **(params or {}),
        )
        rec["_raw"] = res
    except Exception as ex:
        rec["exc"] = exc_info(ex)
        if type(ex).__name__ not in ("AldyException",):
            rec["exc"]["tb"] = traceback.format_exc()[-1500:]
    finally:
        if out:
            out.close()
            with open(out_path) as f:
                rec["output"] = f.read()
    if rec.get("_raw") is not None:
        rec["result"] = [
            [os.path.basename(k), v] for k, v in canon.genotype_result(rec["_raw"])
        ]
    return rec


def run_main(argv):
    """Run the CLI entry point in-process (aldy.__main__.main); captures exit."""
    import logbook

    import aldy.__main__ as M

    rec = {"exit": None, "exc": None}
    nhandlers = 0
    try:
        M.main(argv)
        rec["exit"] = 0
    except SystemExit as ex:
        rec["exit"] = ex.code if isinstance(ex.code, int) else 1
    except BaseException as ex:  # pragma: no cover
        rec["exc"] = exc_info(ex)
        rec["exc"]["tb"] = traceback.format_exc()[-1500:]
    return rec


def solver_summary():
    """Per-segment digest of what the solver seam saw."""
    return {
        "solves": len(SIM.solves),
        "fired": dict(SIM.fired),
        "var_orders": sorted(SIM.var_orders),
        "monitor_failures": list(SIM.monitor_failures),
        "solve_log": [
            [s["model"], s["k"], s["real"], s["ret"], s.get("obj"), s.get("act"), s.get("fault")]
            for s in SIM.solves
        ],
    }

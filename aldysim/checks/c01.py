"""C01 - error-free reads from a catalogued genotype are called as that genotype.

Simulator-owned dimensions: which optimum the solver returns at every solve (so that
"every best solution" ranges over the optimal faces rather than CBC's single pick),
delivery of the alignments (ties permuted at the stream seam, index path) and hash
order.  The workload plants a genotype; the oracle evaluates the statement's
precondition on the recorded structure stage and then the two claims.
"""

import copy
import os
import random
from collections import Counter

from .. import canon
from .. import ops as O
from .. import workload as WL
from .. import world as W
from ..seams import SIM

ID = "C01"
LEVEL = "exploration"
SEGMENT_TIMEOUT = 200
TIERS = {
    "quick": dict(plans=180, budget_s=100, det_plans=2, advs=2),
    "thorough": dict(plans=8000, budget_s=1200, det_plans=8, advs=5, always_selftest=True),
}
READS = [(50, 2), (100, 5), (100, 4), (150, 5), (250, 10)]


SCENARIOS = ["random", "short_reads_clustered_indel", "ambiguous_mnp", "random", "edge_variant", "structural",
             "repeat_insertions", "multiallelic_het", "close_pair", "silent_mnp"]
CLOSE = ["snp_after_ins", "snp_before_del", "snp_after_del", "ins_ins", "snp_after_ins", "snp_before_del",
         "snp_after_del", "snp_snp", "snp_ins_anchor", "del_del", "ins_del", "del_ins"]
# not used here: "snp_under_del" and "mnp_inner_snp" (world.py) - the unchanged tree already mis-calls most such
# samples (a deletion allele counts as a reference copy inside its own deletion; the last base of a complete
# multi-nucleotide substitution is also counted for the single substitution catalogued there), see DESIGN 12


def gen_plan(rng, tier, i, seed):
    """Every batch walks through a fixed cycle of scenario families, so that the situations that need
    something specific (indel next to another site under short reads, ambiguous catalogue resolved by
    read phase only, variant on the edge of the mapped range, structural alleles) are always present."""
    cfg = TIERS[tier]
    scen = SCENARIOS[i % len(SCENARIOS)]
    if os.environ.get("ALDYSIM_C01_SCENARIO"):  # targeted soak of one family
        scen = os.environ["ALDYSIM_C01_SCENARIO"]
    L, step = rng.choice(READS)
    o = WL.gene_opts(rng, small=True)
    o["cluster"] = rng.random() < 0.3
    if scen == "short_reads_clustered_indel":
        L, step = 50, 2
        o.update(cluster=True, n_variants=8, kinds=["snp", "snp", "ins", "ins", "del", "mnp"])
    elif scen == "ambiguous_mnp":
        L, step = rng.choice([(100, 5), (150, 5), (250, 10)])
        o.update(ambiguous=rng.choice([True, "mnp", "mnp"]), kinds=["mnp", "mnp", "snp", "ins", "del"], gene_len=420)
    elif scen == "edge_variant":
        o.update(edge_variant=rng.choice(["last", "first", "both"]))
    elif scen == "silent_mnp":
        # multi-nucleotide substitutions that are silent variants of sub-alleles
        o.update(silent_mnp=True, kinds=["mnp", "mnp", "snp", "mnp", "snp"], n_variants=8)
    elif scen == "repeat_insertions":
        L, step = rng.choice([(100, 5), (150, 5)])
        o.update(repeat_ins=True, gene_len=rng.choice([480, 600]))
        if os.environ.get("ALDYSIM_C01_CLOSE_D"):
            o.update(repeat_d=tuple(map(int, os.environ["ALDYSIM_C01_CLOSE_D"].split(","))))
    elif scen == "close_pair":
        o.update(close_pair=CLOSE[(i // len(SCENARIOS)) % len(CLOSE)])
        if os.environ.get("ALDYSIM_C01_CLOSE_D"):  # survey of the distance at which cis indels are lost
            a_, b_ = map(int, os.environ["ALDYSIM_C01_CLOSE_D"].split(","))
            o.update(close_d=(a_, b_), close_pair=["ins_ins", "del_del", "ins_del", "del_ins"][(i // len(SCENARIOS)) % 4])
    elif scen == "multiallelic_het":
        o.update(multiallelic=True, ambiguous=False, n_major=4)
    elif scen == "structural":
        o.update(pseudo=True, deletion=True, lfusion=rng.random() < 0.7, rfusion=rng.random() < 0.7)
    world = W.gen_world(rng, 1, [o], dict(L=L, step=step), margin=max(200, L + 60))
    cut_sites = None
    g = world["genes"][0]
    units = WL._gen_units(rng, g)
    amb = WL._ambiguous_pair(g)
    normal = [a for a in g["alleles"] if a["kind"] == "normal"]
    if scen == "ambiguous_mnp" and amb:
        a, b, ab, ref = amb
        units = rng.choice([[{"type": "normal", "allele": a}, {"type": "normal", "allele": b}],
                            [{"type": "normal", "allele": ab}, {"type": "normal", "allele": ref}]])
        if rng.random() < 0.85:
            # read length chosen so that reads showing the first site completely end inside the second one
            # (or on the base an insertion is anchored to): such reads tell nothing about the second site
            sites = sorted((g["variants"][v]["g"], g["variants"][v]) for al in g["alleles"] if al["name"] == ab
                           for v in al["vars"] if g["variants"][v]["func"])
            if len(sites) == 2:
                (p0, v0), (p1, v1) = sites
                span = p1 - p0 + 1  # first base of the first site ... first base of the second
                cand = [span, span + 1] if v1["kind"] == "mnp" else [span]
                cand = [x for x in cand if 50 <= x <= world["margin"] - 60]
                if cand:
                    Lx = rng.choice(cand)
                    st = next((s_ for s_ in (5, 4, 3, 2) if Lx % s_ == 0 and Lx // s_ >= 20), 1)
                    if Lx // st <= 60:
                        world["reads"].update(L=Lx, step=st)
                        # (both sites on one copy: only then do such reads speak against the planted pair alone)
                        units = [{"type": "normal", "allele": ab}, {"type": "normal", "allele": ref}]
                        cut_sites = (p0, p1, 3 if v1["kind"] == "mnp" else 1)
    elif scen == "silent_mnp":
        sm = [a["name"] for a in normal
              if any(g["variants"][v]["kind"] == "mnp" and not g["variants"][v]["func"] for v in a["vars"])]
        if sm:
            units = [{"type": "normal", "allele": rng.choice(sm)},
                     {"type": "normal", "allele": rng.choice(sm + [a["name"] for a in normal])}]
    elif scen == "short_reads_clustered_indel":
        # the same haplotype on every copy, preferably one that carries an insertion / deletion
        indel = [a["name"] for a in normal if any(g["variants"][v]["kind"] in ("ins", "del") for v in a["vars"])]
        # (preferably a sub-allele with a silent insertion of three or more bases: the reads that end on its anchor
        # base or inside it are then several per copy)
        long_ins = [a["name"] for a in normal if any(g["variants"][v]["kind"] == "ins" and not g["variants"][v]["func"]
                                                     and len(g["variants"][v]["alt"]) >= 3 for v in a["vars"])]
        pick = rng.choice(long_ins or indel or [a["name"] for a in normal])
        units = [{"type": "normal", "allele": pick}, {"type": "normal", "allele": pick}]
        if rng.random() < 0.3:
            units.append({"type": "extra", "allele": pick})
    elif scen == "close_pair" and g.get("cis_pair"):
        a_, b_ = g["cis_pair"]
        both = [a["name"] for a in normal if {a_, b_} <= set(a["vars"])]
        onlya = [a["name"] for a in normal if a_ in a["vars"] and b_ not in a["vars"]]
        onlyb = [a["name"] for a in normal if b_ in a["vars"] and a_ not in a["vars"]]
        anyn = [a["name"] for a in normal]
        form = rng.choice(["cis", "cis", "cis_hom", "trans"])
        if g.get("no_cis"):
            form = "trans"
        if form == "trans" and onlya and onlyb:
            units = [{"type": "normal", "allele": onlya[0]}, {"type": "normal", "allele": onlyb[0]}]
        elif form == "cis_hom" and both:
            units = [{"type": "normal", "allele": both[0]}, {"type": "normal", "allele": both[0]}]
        elif both:
            units = [{"type": "normal", "allele": both[0]}, {"type": "normal", "allele": rng.choice(anyn)}]
        elif g.get("no_cis") and onlya:
            units = [{"type": "normal", "allele": onlya[0]}, {"type": "normal", "allele": rng.choice(anyn)}]
    elif scen == "repeat_insertions" and g.get("cis_pair"):
        both = [a["name"] for a in normal if set(g["cis_pair"]) <= set(a["vars"])]
        only = [a["name"] for a in normal if g["cis_pair"][0] in a["vars"] and g["cis_pair"][1] not in a["vars"]]
        units = [{"type": "normal", "allele": both[0]},
                 {"type": "normal", "allele": rng.choice(only + [a["name"] for a in normal])}]
    elif scen == "multiallelic_het" and WL.multiallelic_pair(g):
        a, b = WL.multiallelic_pair(g)
        units = [{"type": "normal", "allele": a}, {"type": "normal", "allele": b}]
        if rng.random() < 0.3:
            units.append({"type": "extra", "allele": rng.choice([a, b])})
    elif scen == "edge_variant":
        edge = [a["name"] for a in normal if any(g["variants"][v].get("edge") for v in a["vars"])]
        if edge:
            units = [{"type": "normal", "allele": rng.choice(edge)}, {"type": "normal", "allele": rng.choice([a["name"] for a in normal])}]
    elif rng.random() < 0.2:
        first = next((u for u in units if u["type"] == "normal"), None)
        if first:
            units = [dict(first), dict(first)] + [dict(first, type="extra") for u in units[2:]]
    smp = {"name": "s0", "genes": {g["name"]: units}, "phase_seed": rng.randint(0, 999),
           "paired": rng.random() < 0.4}
    if rng.random() < 0.25:
        smp["chr_prefix"] = True  # the alignment file names its contigs chr<name>
    if cut_sites:
        # where the tiling starts is the sequencer's choice: pick a start (phase seed) for which the copy that
        # carries both sites has a read ending inside the second site and the other copy has none
        p0, p1, w1 = cut_sites
        smp["paired"] = False

        def cut_reads(ps):
            out = [0, 0]
            for rs, ops, seq, nm in W.sample_reads(world, dict(smp, phase_seed=ps)):
                end = rs + sum(n for op, n in ops if op in (0, 2)) - 1
                if rs <= p0 and p1 <= end < p1 + max(1, w1 - 1) + (0 if w1 > 1 else 0) and f"{g['name']}u" in nm and "g." in nm:
                    out[0 if "u0g" in nm else 1] += 1
            return out

        for ps in range(smp["phase_seed"], smp["phase_seed"] + 40):
            c = cut_reads(ps)
            if c[0] > 0 and c[1] == 0:
                smp["phase_seed"] = ps
                break
    return {"world": world, "samples": {"s0": smp}, "build": rng.choice(["hg19", "hg19", "hg38"]), "scenario": scen,
            "hashseed": rng.choice([0, 1, 2, 3]), "advs": [rng.randint(0, 10**9) for _ in range(cfg["advs"])],
            "shuffle": rng.choice([None, rng.randint(0, 10**6)]), "route": rng.choice(["bam", "yml"]),
            "realigner_fault": rng.randint(0, 99) if rng.random() < 0.3 else None}


def execute(plan, runner, rundir):
    wdir = os.path.join(rundir, "world")
    man = runner.segment({"kind": "materialise", "hashseed": 0, "world": plan["world"], "samples": plan["samples"],
                          "build": plan["build"], "dir": wdir})
    runs = []
    for adv in [None] + plan["advs"]:
        sim = {"adversary": adv} if adv is not None else {}
        if plan["shuffle"] is not None:
            sim["stream"] = {"shuffle": plan["shuffle"], "only_file": "s0.bam"}
        runs.append(runner.segment({"kind": "run", "hashseed": plan["hashseed"], "worlddir": wdir, "man": man,
                                    "rundir": rundir, "sim": sim, "plan": plan}))
    return {"runs": runs}


def _v(clause, **detail):
    return {"clause": clause, "detail": detail}


def _crosstalk(plan):
    """Catalogued indels that were NOT planted but lie within 60 bp of a planted indel of the same kind and
    length (the realigner attributes the planted indel's reads to them, see known findings)."""
    g = plan["world"]["genes"][0]
    units = plan["samples"]["s0"]["genes"][g["name"]]
    shift = plan["world"]["hg38_shift"] if plan["build"] == "hg38" else 0
    planted = set()
    for u in units:
        if u["type"] != "deletion":
            planted |= set(W.unit_variants(g, u))
    out = []
    for k, v in g["variants"].items():
        if k in planted or v["kind"] not in ("ins", "del"):
            continue
        n = len(v["alt"]) if v["kind"] == "ins" else len(v["ref"])
        for p in planted:
            w = g["variants"][p]
            m = len(w["alt"]) if w["kind"] == "ins" else len(w["ref"])
            if w["kind"] == v["kind"] and m == n and abs(w["g"] - v["g"]) <= 60:
                out.append(list(W.expected_mutation(v, shift)))
    return out


def _close_context(plan):
    """Planted variants in the three situations the known findings describe: (cis) two catalogued indels up to
    30 bp apart on one planted haplotype (the finding additionally needs the realigner to have skipped them,
    see signature()), (same_site) an insertion whose anchor base carries a planted
    substitution of the same haplotype, (trans) two planted indels of the same kind and length within 60 bp
    that are not carried by the same copies."""
    g = plan["world"]["genes"][0]
    units = plan["samples"]["s0"]["genes"][g["name"]]
    V = g["variants"]
    per_unit = [set(W.unit_variants(g, u)) for u in units if u["type"] != "deletion"]
    span = lambda k: len(V[k]["alt"]) if V[k]["kind"] == "ins" else len(V[k]["ref"])  # noqa
    cis, same, trans = set(), set(), set()
    for vs_ in per_unit:
        ind = sorted(k for k in vs_ if V[k]["kind"] in ("ins", "del"))
        for a in ind:
            for b in ind:
                if a < b and abs(V[a]["g"] - V[b]["g"]) <= 30:
                    cis |= {a, b}
        for a in vs_:
            for b in vs_:
                if (V[a]["kind"] == "ins" and V[b]["kind"] in ("snp", "mnp")
                        and V[b]["g"] <= V[a]["g"] < V[b]["g"] + len(V[b]["ref"])):
                    same |= {a, b}
    carriers = lambda k: tuple(k in vs_ for vs_ in per_unit)  # noqa
    allind = sorted({k for vs_ in per_unit for k in vs_ if V[k]["kind"] in ("ins", "del")})
    for a in allind:
        for b in allind:
            if (a < b and V[a]["kind"] == V[b]["kind"] and span(a) == span(b)
                    and abs(V[a]["g"] - V[b]["g"]) <= 60 and carriers(a) != carriers(b)):
                trans |= {a, b}
    # (multi) a site at which the planted copies show two or more different substitutions and no copy shows
    # the reference base (the minor model's non-mutation bound, see the C04 finding)
    multi = set()
    by_site = {}
    for vs_ in per_unit:
        for k in vs_:
            if V[k]["kind"] == "snp":
                by_site.setdefault(V[k]["g"], []).append(k)
    for gpos, ks in by_site.items():
        if len(set(ks)) >= 2 and len(ks) == len(per_unit):
            multi |= set(ks)
    return {"cis_indels": sorted(cis), "same_site": sorted(same), "trans_indels": sorted(trans),
            "multiallelic_no_reference": sorted(multi)}


def _major_funcs(g, name, drop):
    """Core variants of a reported / planted major allele name minus `drop` (opaque token if unknown)."""
    if "#" in str(name):
        l, r = str(name).split("#", 1)
        return ("fusion", _major_funcs(g, l, drop), _major_funcs(g, r, drop))
    base = str(name).split("+")[0].strip("*")
    for a in g["alleles"]:
        if a["name"] == f"{base}.001":
            return (a["kind"], a.get("brk"), tuple(sorted(v for v in a["vars"] if g["variants"][v]["func"] and v not in drop)))
    return ("?", str(name), ())


def _confined_majors(g, planted, reported, ids):
    """Some reported combination equals the planted one once the listed variants are disregarded."""
    want = sorted(map(repr, (_major_funcs(g, m, ids) for m in planted)))
    return any(sorted(map(repr, (_major_funcs(g, m, ids) for m in rep))) == want for rep in reported)


def judge(plan, outcome):
    vs = []
    g = plan["world"]["genes"][0]
    units = plan["samples"]["s0"]["genes"][g["name"]]
    xt = _crosstalk(plan)
    cc = _close_context(plan)
    ids = set(cc["cis_indels"]) | set(cc["same_site"]) | set(cc["trans_indels"]) | set(cc["multiallelic_no_reference"])
    shift = plan["world"]["hg38_shift"] if plan["build"] == "hg38" else 0
    idmuts = {tuple(W.expected_mutation(g["variants"][k], shift)) for k in ids}
    ccd = {k: [list(W.expected_mutation(g["variants"][x], shift)) for x in v] for k, v in cc.items() if v}

    planted_ids = set()
    for u in units:
        if u["type"] != "deletion":
            planted_ids |= set(W.unit_variants(g, u))
    unplanted_indels = {k: tuple(W.expected_mutation(v, shift)) for k, v in g["variants"].items()
                        if k not in planted_ids and v["kind"] in ("ins", "del")}

    def phantom(r):
        # catalogued indels no planted haplotype carries for which the realigner nevertheless reports
        # supporting reads
        ra = r.get("realigned") or {}
        return {k: m for k, m in unplanted_indels.items() if (ra.get(f"{m[0]}:{m[1]}") or [0, 0])[1] > 0}

    def with_skips(r):
        # planted cis indels the realigner left without any count at all ([0, 0]: it skipped them)
        sk = [m for m in ccd.get("cis_indels", []) if (r.get("realigned") or {}).get(f"{m[0]}:{m[1]}") == [0, 0]]
        out = dict(ccd, realigner_skipped=sk) if sk else dict(ccd)
        ph = phantom(r)
        if ph:
            out["realigner_support_for_unplanted_indels"] = [[m[0], m[1], (r["realigned"][f"{m[0]}:{m[1]}"])]
                                                             for m in sorted(ph.values())]
        return out
    for i, r in enumerate(outcome["runs"]):
        env = {"solver": "plain" if i == 0 else f"adversary:{plan['advs'][i - 1]}", "units": units,
               "read_length": plan["world"]["reads"]["L"], "strand": g["strand"], "build": plan["build"]}
        if r["error"]:
            # planted genotypes always have reads: an error is only acceptable if the structure stage
            # could not be evaluated (precondition unknown)
            if r["precondition"] is True:
                vs.append(_v("planted sample ended in an error", error=r["error"], close_context=with_skips(r),
                             confined="could not phase any major solution" in (r["error"].get("msg") or ""), **env))
            continue
        if not r["precondition"]:
            continue
        if not r["planted_major_reported"]:
            vs.append(_v("planted combination of major star-alleles is not among the best solutions",
                         planted=r["planted_majors"], reported=r["reported_majors"],
                         neighbouring_unplanted_indels=xt, close_context=with_skips(r),
                         confined=bool(ids) and _confined_majors(g, r["planted_majors"], r["reported_majors"], ids),
                         confined_to_phantom=bool(phantom(r)) and _confined_majors(
                             g, r["planted_majors"], r["reported_majors"], set(phantom(r))),
                         **env))
        for k, s in enumerate(r["solutions"]):
            if s["variants"] != r["planted_variants"]:
                got, want = Counter(map(tuple, s["variants"])), Counter(map(tuple, r["planted_variants"]))
                vs.append(_v("a best solution's variants differ from the simulated haplotypes' variants",
                             solution=s["nice"], added=[list(x) for x in (got - want)][:4],
                             lost=[list(x) for x in (want - got)][:4], score=s["score"],
                             neighbouring_unplanted_indels=xt, close_context=with_skips(r),
                             confined=bool(ids) and all(x in idmuts for x in list(got - want) + list(want - got)),
                             confined_to_phantom=bool(got - want) and not (want - got)
                             and all(x in set(phantom(r).values()) for x in (got - want)),
                             **env))
                break
    return vs


def signature(v):
    d = v["detail"]
    sig = {"clause": v["clause"]}
    xt = [tuple(x) for x in d.get("neighbouring_unplanted_indels") or []]
    if xt:
        if "added" in d:
            # every wrongly added variant is such a neighbour (losses are the planted indel's own copies)
            if d["added"] and all(tuple(a) in xt for a in d["added"]):
                sig["kind"] = "neighbouring-indel-crosstalk"
        else:
            sig["kind"] = "neighbouring-indel-crosstalk"
    cc = d.get("close_context") or {}
    if "kind" not in sig and d.get("confined"):
        # the deviation involves nothing but the variants of the situation (see _close_context, judge)
        if cc.get("same_site"):
            sig["kind"] = "substitution-on-insertion-anchor"
        elif cc.get("cis_indels") and cc.get("realigner_skipped"):
            sig["kind"] = "close-cis-indels"
        elif cc.get("trans_indels") and v["clause"] != "planted sample ended in an error":
            sig["kind"] = "planted-indel-crosstalk"
        elif cc.get("multiallelic_no_reference"):
            sig["kind"] = "multiallelic-site-without-reference-reads"
    if "kind" not in sig and d.get("confined_to_phantom"):
        sig["kind"] = "realigner-support-for-unplanted-indel"
    return sig


def shrink(plan):
    g = plan["world"]["genes"][0]["name"]
    units = plan["samples"]["s0"]["genes"][g]
    if len(units) > 2:
        p = copy.deepcopy(plan)
        p["samples"]["s0"]["genes"][g] = units[:2]
        yield p
    for i, u in enumerate(units[:2]):
        if u["type"] != "normal" or u.get("allele") != "1.001":
            p = copy.deepcopy(plan)
            p["samples"]["s0"]["genes"][g][i] = {"type": "normal", "allele": "1.001"}
            yield p
    if plan["advs"]:
        p = copy.deepcopy(plan)
        p["advs"] = []
        yield p
        for a in plan["advs"]:
            p = copy.deepcopy(plan)
            p["advs"] = [a]
            yield p
    if plan["shuffle"] is not None or plan["hashseed"] or plan["build"] != "hg19" or plan["route"] != "bam":
        p = copy.deepcopy(plan)
        p.update(shuffle=None, hashseed=0, build="hg19", route="bam")
        yield p
    if plan["samples"]["s0"].get("paired"):
        p = copy.deepcopy(plan)
        p["samples"]["s0"]["paired"] = False
        yield p


def new_stats():
    return {"plans": 0, "runs": 0, "precondition_true": 0, "precondition_false": 0, "errors": 0, "fired": {},
            "unit_kinds": Counter(), "variant_kinds": Counter(), "strands": Counter(), "read_lengths": Counter(),
            "shapes": set(), "solutions": 0, "multi_solution": 0, "adv_moved": 0}


def count_evaluations(plan, out):
    return len(out["runs"])


def update_stats(acc, plan, out):
    acc["plans"] += 1
    g = plan["world"]["genes"][0]
    units = plan["samples"]["s0"]["genes"][g["name"]]
    ok = False
    for r in out["runs"]:
        acc["runs"] += 1
        if r["precondition"]:
            acc["precondition_true"] += 1
            ok = True
        else:
            acc["precondition_false"] += 1
        if r["error"]:
            acc["errors"] += 1
        acc["solutions"] += len(r["solutions"])
        if len(r["solutions"]) > 1:
            acc["multi_solution"] += 1
        for k, v in r["fired"].items():
            acc["fired"][k] = acc["fired"].get(k, 0) + v
    if ok:
        acc["shapes"].add(canon.digest([canon.digest(plan["world"]), units])[:12])
        for u in units:
            acc["unit_kinds"][u["type"]] += 1
            if u["type"] != "deletion":
                for v in W.unit_variants(g, u):
                    acc["variant_kinds"][g["variants"][v]["kind"]] += 1
        acc["strands"][g["strand"]] += 1
        acc["read_lengths"][plan["world"]["reads"]["L"]] += 1
        acc.setdefault("scenarios", Counter())[plan.get("scenario", "random")] += 1


def sample_view(plan, out):
    g = plan["world"]["genes"][0]
    r = out["runs"][0]
    return {"strand": g["strand"], "units": plan["samples"]["s0"]["genes"][g["name"]],
            "reads": plan["world"]["reads"], "precondition": r["precondition"],
            "planted_majors": r["planted_majors"], "reported": [s["nice"] for s in r["solutions"]][:3]}


def evidence(acc):
    return {
        "coverage": {
            "distinct_nontrivial": len(acc["shapes"]),
            "rule": "one evaluation = one genotype() of a planted error-free sample under one solver behaviour; "
                    "distinct_nontrivial = distinct (database, planted haplotype multiset) pairs whose precondition "
                    "(planted structure is an optimal explanation of the depths) held",
            "plans": acc["plans"], "runs": acc["runs"],
            "precondition_true": acc["precondition_true"], "precondition_false": acc["precondition_false"],
            "best_solutions_judged": acc["solutions"],
            "fault_kinds_fired": acc["fired"],
            "probes": {"unit_kinds": dict(acc["unit_kinds"]), "planted_variant_kinds": dict(acc["variant_kinds"]),
                       "strands": dict(acc["strands"]), "read_lengths": dict(acc["read_lengths"]),
                       "runs_with_several_best_solutions": acc["multi_solution"], "runs_ending_in_error": acc["errors"],
                       "scenario_families_with_precondition": dict(acc.get("scenarios", {}))},
            "components": {"real": ["whole aldy pipeline incl. indelpost realignment", "CBC", "pysam"],
                           "stub": ["solver proxy (adversarial optimal vertex at every solve)", "stream seam "
                                    "(permuted delivery)", "exact-tiling read simulator"]},
        },
        "assumptions": [
            "shipped genes are not simulated (no read simulator for their pseudogene sequence); generated databases only",
            "indels are placed where they cannot be shifted; multi-nucleotide substitutions are core variants",
            "long reads and CRAM are not generated",
        ],
    }


# ---------------------------------------------------------------------------
# child side


def _expected(gene, g, units, shift):
    """Planted structure, major alleles (by content lookup in the loaded catalogue) and variants."""
    from aldy.gene import Mutation

    dele = gene.deletion_allele()
    structure, majors, variants = [], [], []
    ok = True
    # configuration of a fusion allele: the configuration whose allele set stems from it
    for u in units:
        t = u["type"]
        if t == "deletion":
            continue
        vs = [Mutation(*W.expected_mutation(g["variants"][v], shift)) for v in W.unit_variants(g, u)]
        variants += vs
        func = {m for m in vs if gene.is_functional(m)}
        if t in ("normal", "extra"):
            conf = "1"
        else:
            num = u["allele"].split(".")[0]
            conf = num if num in gene.cn_configs else None
            if conf is None:
                ok = False
                continue
        structure.append(conf)
        cand = [a.name for a in gene.alleles.values() if a.cn_config == conf and set(a.func_muts) == func]
        if len(cand) != 1:
            ok = False
            majors.append(None)
        else:
            majors.append(cand[0])
    return sorted(structure), majors, sorted((m.pos, m.op) for m in variants), ok


def run_segment(seg):
    from .. import streams

    plan = seg.get("plan")
    if seg["kind"] == "materialise":
        return O.materialise(seg["world"], seg["dir"], seg["samples"], build=seg["build"], profile_yaml=True)
    streams.install_stream_seam()
    streams.reset()
    from aldy.gene import Gene

    wd, man, rd = seg["worlddir"], seg["man"], seg["rundir"]
    os.chdir(rd)
    world = plan["world"]
    g = world["genes"][0]
    build = plan["build"]
    shift = world["hg38_shift"] if build == "hg38" else 0
    db = os.path.join(wd, man["db"][g["name"]])
    prof, cnr = (os.path.join(wd, man["ref_bam"]), man["neutral"]) if plan["route"] == "bam" else \
        (os.path.join(wd, man["profile_yml"]), None)
    gene = Gene(db, genome=build)
    units = plan["samples"]["s0"]["genes"][g["name"]]
    structure, majors, variants, ok = _expected(gene, g, units, shift)
    if plan.get("realigner_fault") is not None:
        # fault injection at the third-party realigner: the query for ONE catalogued indel that the sample does
        # not carry fails ("No solution found", what the realigner's aligner raises).  aldy logs and skips that
        # indel; the evidence of every other indel - the planted ones - must be gathered all the same
        import aldy.indelpost

        planted_v = {tuple(v) for v in variants}
        free = sorted(k for k in gene.mutations if k[1][:3] in ("ins", "del") and tuple(k) not in planted_v)
        if free:
            pos_, op_ = free[plan["realigner_fault"] % len(free)]
            target_pos = pos_ + 1 if op_.startswith("ins") else pos_
            real_valn = aldy.indelpost.VariantAlignment

            def faulty(target, *a, **k):
                if target.pos == target_pos and (len(target.alt) > len(target.ref)) == op_.startswith("ins"):
                    SIM.fire("realigner_fault")
                    raise ValueError("No solution found")
                return real_valn(target, *a, **k)

            aldy.indelpost.VariantAlignment = faulty
    rec = O.run_genotype(db, os.path.join(wd, man["samples"]["s0"]), prof, None, cn_region=cnr,
                         genome=build if build != "hg19" else None)
    raw = rec.pop("_raw", None)
    sols = list(raw.values())[0] if raw else []
    out = {"error": rec["exc"], "precondition": None, "planted_majors": majors, "planted_variants": [list(v) for v in variants],
           "solutions": [], "reported_majors": [], "planted_major_reported": False,
           "fired": {k: v for k, v in SIM.fired.items() if k != "jitter"},
           "realigned": (streams._state.get("realigned") or [{}])[-1]}
    # precondition: the planted structure is an optimal explanation of the region depths
    cn_calls = [c for c in SIM.stage_calls if c["stage"] == "estimate_cn" and c["ret"] is not None]
    if cn_calls and cn_calls[0]["ret"] and ok:
        ret, sc = cn_calls[0]["ret"], cn_calls[0]["ret_scores"]
        best = min(sc)
        optimal = [sorted(Counter({k: v for k, v in c.solution.items() if v}).elements()) for c, s in zip(ret, sc)
                   if s <= best + 1e-6]
        out["precondition"] = structure in optimal
        out["optimal_structures"] = optimal[:4]
    for s in sols:
        # only solutions built on the planted structure are compared (ties between structures are
        # outside the statement: it speaks about the planted structure being optimal)
        st = sorted(Counter({k: v for k, v in s.major_solution.cn_solution.solution.items() if v}).elements())
        vs = []
        for a in s.solution:
            d = set(gene.alleles[a.major].func_muts) | set(gene.alleles[a.major].minors[a.minor].neutral_muts)
            d |= set(a.added)
            d -= set(a.missing)
            vs += [(m.pos, m.op) for m in d]
        mj = sorted(a.major for a in s.solution)
        out["reported_majors"].append(mj)
        if st != structure:
            continue
        out["solutions"].append({"nice": s._solution_nice(), "score": s.score, "variants": [list(v) for v in sorted(vs)],
                                 "majors": mj})
        if None not in majors and mj == sorted(majors):
            out["planted_major_reported"] = True
    if out["precondition"] and not any(True for _ in out["solutions"]):
        # planted structure optimal but no reported solution uses it
        out["planted_major_reported"] = False
    return out

"""C03 - gene-structure (copy number) calls are well-formed and optimal.

Simulator-owned dimension: which optimum / which order the solver returns
(adversary), integrality jitter, status faults.  Oracle: independent evaluator of
the documented objective minimised over the internal slot assignment, well-formedness
invariants, cross-adversary containment rule, brute force over all configuration
multisets; plus the configuration clauses (user structure verbatim, unknown names
rejected, default copies when calling is unavailable).
"""

import copy
import itertools
import os
import random
from collections import Counter

from .. import canon
from .. import stagelib as SL
from ..seams import SIM

ID = "C03"
LEVEL = "exploration"
SEGMENT_TIMEOUT = 240
TIERS = {
    "quick": dict(plans=48, budget_s=70, cases=5, advs=4, det_plans=2, shipped=[]),
    "thorough": dict(plans=4000, budget_s=900, cases=8, advs=10, det_plans=8, shipped=["CYP2A6", "GSTM1", "CYP2D6"],
                     always_selftest=True),
}
TOL = 1e-4
BAND = 1e-4


def gen_case(rng, tier):
    cfg = TIERS[tier]
    r = rng.random()
    if r < 0.3:
        gene = {"kind": "toy", "genome": rng.choice(["hg19", "hg38"])}
    elif r < 0.4:
        # partial deletions are the only structural alleles of this catalogue
        gene = {"kind": "world", "world": SL.gen_stage_world(rng, pseudo=True, deletion=False, lfusion=False,
                                                             rfusion=False, custom_del=True)}
    elif r < 0.9 or not cfg["shipped"]:
        gene = {"kind": "world", "world": SL.gen_stage_world(rng, pseudo=rng.random() < 0.9, deletion=rng.random() < 0.8,
                                                             custom_del=rng.random() < 0.4)}
    else:
        gene = {"kind": "shipped", "name": rng.choice(cfg["shipped"]), "genome": "hg19"}
    return {"gene": gene, "seed": rng.randint(0, 10**9), "gap": rng.choice([0, 0, 0.1, 0.3]),
            "max_cn": rng.choice([3, 4, 4, 5, 6]), "noise": rng.choice([0.0, 0.1, 0.3, 0.5]),
            "fusion_support": rng.random() < 0.3,
            # as many gene copies as the model has room for at this maximum copy number (two complete
            # configurations + max_cn - 1 extra copies), optionally with surplus pseudogene copies on top
            "tight": rng.choice([None, None, None, None, None, None, "copies", "copies+pseudo"])}


def gen_plan(rng, tier, i, seed):
    cfg = TIERS[tier]
    return {"segments": [{"hashseed": rng.choice([0, 1, 2, 3]),
                          "cases": [gen_case(rng, tier) for _ in range(cfg["cases"])],
                          "advs": [rng.randint(0, 10**9) for _ in range(cfg["advs"])],
                          "jitter": rng.randint(0, 10**9), "fault_seed": rng.randint(0, 10**9),
                          "config_clauses": i % 6 == 0, "pipeline_clauses": i % 24 == 6,
                          "rundir_tag": i}]}


def execute(plan, runner, rundir):
    return {"segments": [runner.segment(s) for s in plan["segments"]]}


def judge(plan, outcome):
    vs = []
    for r in outcome["segments"]:
        vs += r["violations"]
    return vs


def signature(v):
    return {"clause": v["clause"]}


def shrink(plan):
    seg = plan["segments"][0]
    if len(seg["cases"]) > 1:
        for c in seg["cases"]:
            p = copy.deepcopy(plan)
            p["segments"][0]["cases"] = [c]
            p["segments"][0]["config_clauses"] = False
            yield p
    if len(seg["advs"]) > 1:
        for a in seg["advs"]:
            p = copy.deepcopy(plan)
            p["segments"][0]["advs"] = [a]
            yield p


def new_stats():
    return {"plans": 0, "cases": 0, "runs": 0, "solutions": 0, "brute_structs": 0, "fired": {}, "ge2": 0,
            "shapes": set(), "genes": {}, "with_deletion": 0, "with_fusion": 0, "with_extra": 0, "faults": 0,
            "truncated": 0, "config_checks": 0, "fusion_support_cases": 0, "via_counters": 0, "via_counters_all_zero": 0}


def count_evaluations(plan, out):
    return sum(r["stats"]["runs"] for r in out["segments"])


def update_stats(acc, plan, out):
    acc["plans"] += 1
    for r in out["segments"]:
        st = r["stats"]
        for k in ("cases", "runs", "solutions", "brute_structs", "ge2", "with_deletion", "with_fusion", "with_extra",
                  "faults", "truncated", "config_checks", "fusion_support_cases", "via_counters",
                  "via_counters_all_zero"):
            acc[k] += st[k]
        for k, v in st["fired"].items():
            acc["fired"][k] = acc["fired"].get(k, 0) + v
        for k, v in st["genes"].items():
            acc["genes"][k] = acc["genes"].get(k, 0) + v
        acc["shapes"].update(st["shapes"])


def sample_view(plan, out):
    return {"case": {k: v for k, v in plan["segments"][0]["cases"][0].items() if k != "gene"},
            "gene_kind": plan["segments"][0]["cases"][0]["gene"]["kind"], "result": out["segments"][0].get("sample")}


def evidence(acc):
    return {
        "coverage": {
            "distinct_nontrivial": len(acc["shapes"]),
            "rule": "one evaluation = one solve_cn_model() / estimate_cn() call under one solver behaviour judged by "
                    "the independent evaluator; distinct_nontrivial = distinct (gene, depth vector, max copy number, "
                    "gap) cases with a reported structure",
            "plans": acc["plans"], "cases": acc["cases"], "runs": acc["runs"],
            "structures_judged": acc["solutions"],
            "structures_enumerated_by_reference": acc["brute_structs"],
            "fault_kinds_fired": acc["fired"], "genes": acc["genes"],
            "probes": {"cases_with_ge2_structures": acc["ge2"], "reported_with_implicit_deletion": acc["with_deletion"],
                       "reported_with_fusion": acc["with_fusion"], "reported_with_extra_copies": acc["with_extra"],
                       "faulted_runs": acc["faults"], "faulted_runs_truncated": acc["truncated"],
                       "configuration_clause_checks": acc["config_checks"],
                       "cases_with_fusion_support": acc["fusion_support_cases"],
                       "estimate_cn_runs_from_fusion_read_counters": acc["via_counters"],
                       "of_which_no_read_spans_any_break_point": acc["via_counters_all_zero"]},
            "components": {"real": ["aldy.cn (model builder, enumeration, user structure, defaults)", "aldy.lpinterface", "CBC"],
                           "stub": ["solver proxy (adversarial optimal vertex, jitter, status faults)"]},
        },
        "assumptions": [
            "constants only the code knows: parsimony unit 7.5 / number of copy-number regions, extra penalties "
            "profile.cn_fusion_left / cn_fusion_right times that unit, E_pce weight profile.cn_pce_penalty",
            "tolerance 1e-4; structures within 1e-4 of the gap boundary may or may not be reported",
        ],
    }


# ---------------------------------------------------------------------------
# child side


class Evaluator:
    def __init__(self, gene, profile, configs, max_cn, region_cov, fusion_support):
        from aldy.gene import CNConfigType

        self.gene, self.profile, self.max_cn, self.rc = gene, profile, max_cn, region_cov
        self.T = CNConfigType
        self.dele = gene.deletion_allele()
        self.has_pseudo = len(gene.regions) > 1
        self.configs = {}
        for n, c in configs.items():
            # long-read support values speak about fusions: a fusion without (enough) support is not
            # admissible; every other configuration (default, whole-gene deletion, partial deletion) is
            if (not fusion_support or c.kind not in (self.T.LEFT_FUSION, self.T.RIGHT_FUSION)
                    or (n in fusion_support and fusion_support[n] >= 1 / (2 * max_cn))):
                self.configs[n] = c
        self.regions = [r for r in region_cov if r in gene.unique_regions]
        nreg = len(gene.unique_regions)
        self.pp = 10.0 / nreg * 0.75
        self.dc = profile.cn_diff / nreg
        self.fc = profile.cn_fit / nreg

    def pen(self, name):
        p = self.pp
        if name in self.gene.cn_configs:
            k = self.gene.cn_configs[name].kind
            if k == self.T.RIGHT_FUSION:
                p += self.pp * self.profile.cn_fusion_right
            if k == self.T.LEFT_FUSION:
                p += self.pp * self.profile.cn_fusion_left
        return p

    def score_assignment(self, complete, weak1, ndel, npseudo):
        """complete: list of non-deletion config names in complete slots; weak1: # extra default
        copies; ndel: # deletion slots; npseudo: # fake pseudogene slots."""
        tot = 0.0
        for r in self.regions:
            c0, c1 = self.rc[r]
            g = 0.0  # gene copies
            p = 0.0  # pseudogene copies
            for n in complete:
                cn = self.configs[n].cn
                g += cn[0].get(r, 0)
                if len(cn) > 1:
                    p += cn[1].get(r, 0)
            d1 = self.configs["1"].cn
            g += weak1 * d1[0].get(r, 0)
            if len(d1) > 1:
                p += weak1 * (d1[1].get(r, 0) - 1)
            if self.dele:
                dc = self.configs[self.dele].cn
                g += (ndel + npseudo) * dc[0].get(r, 0)
                if len(dc) > 1:
                    p += (ndel + npseudo) * dc[1].get(r, 0)
            scale = max(c0, c1) + 1
            e = ((c0 - c1) - (g - p)) / scale
            eg = c0 - g
            if abs(e) > self.profile.cn_max + 1e-9 or abs(eg) > self.profile.cn_max + 1e-9:
                return None
            w = self.profile.cn_pce_penalty if r == "pce" else 1.0
            tot += self.dc * w * abs(e) + self.fc * abs(eg)
        pars = sum(self.pen(n) for n in complete) + weak1 * self.pen("1")
        if self.dele:
            pars += ndel * self.pen(self.dele)
        pars += npseudo * self.pp
        return tot + self.profile.cn_parsimony * pars

    def score_structure(self, S):
        """Best explanation of the configuration multiset S (Counter without the deletion)."""
        n1 = S.get("1", 0)
        other = []
        for n, c in S.items():
            if n == "1":
                continue
            if n not in self.configs or n == self.dele or c > 2:
                return None
            other += [n] * c
        if len(other) > 2:
            return None
        best = None
        for k1 in range(0, min(2, n1) + 1):  # complete default copies
            ndel = 2 - len(other) - k1
            if ndel < 0:
                continue
            if ndel > 0 and not self.dele:
                continue
            weak = n1 - k1
            if weak > self.max_cn - 1:
                continue
            if ndel == 2 and (other or n1):
                continue  # double deletion stands alone
            pmax = self.max_cn if (self.has_pseudo and self.dele and ndel < 2) else 0
            for ps in range(0, pmax + 1):
                s = self.score_assignment(other + ["1"] * k1, weak, ndel, ps)
                if s is not None and (best is None or s < best):
                    best = s
        return best

    def brute(self):
        names = [n for n in self.configs if n not in ("1", self.dele)]
        out = {}
        others = [()]
        for k in (1, 2):
            others += list(itertools.combinations_with_replacement(sorted(names), k))
        for o in others:
            for n1 in range(0, self.max_cn + 2):
                S = Counter(o)
                if n1:
                    S["1"] = n1
                s = self.score_structure(S)
                if s is not None:
                    out[tuple(sorted(S.elements()))] = s
        return out


def run_case(case, seg, viol, stats, sample):
    import aldy.cn as CN
    from aldy.profile import Profile

    rng = random.Random(case["seed"])
    gene = SL.load_gene(case["gene"])
    gname = case["gene"].get("name", case["gene"]["kind"])
    # a catalogue with structural alleles (whole-gene deletion, fusion, partial deletion: any configuration
    # besides the default one) has copy-number calling; "unavailable" is for genes without any
    structural = len(gene.cn_configs) > 1
    if structural != bool(gene.do_copy_number):
        viol.append({"clause": "copy-number calling is (un)available contrary to the catalogue's structural alleles",
                     "detail": {"gene": gname, "configurations": sorted(gene.cn_configs),
                                "do_copy_number": bool(gene.do_copy_number)}})
    if not structural:
        return
    stats["genes"][gname] = stats["genes"].get(gname, 0) + 1
    profile = Profile("test", gap=case["gap"])
    max_cn = case["max_cn"]
    # planted structure -> depth vector with additive noise on a 0.01 grid
    cn = SL.random_cn(rng, gene, 4)
    if gene.deletion_allele() and rng.random() < 0.2:
        cn = cn[:1]  # one copy + implicit deletion
    if case.get("tight"):
        max_cn = rng.choice([3, 3, 4])
        cn = ["1"] * (max_cn + 1)
    rc = {}
    for r in gene.unique_regions:
        g = sum(gene.cn_configs[c].cn[0].get(r, 0) for c in cn)
        p = 0.0
        if len(gene.regions) > 1:
            for i, c in enumerate(cn):
                # copies beyond the two haplotypes are gene-only duplications
                p += gene.cn_configs[c].cn[1].get(r, 0) - (1 if (i >= 2 and c == "1") else 0)
            if len(cn) == 1 and gene.deletion_allele():
                p += gene.cn_configs[gene.deletion_allele()].cn[1].get(r, 0)
        if case.get("tight") == "copies+pseudo":
            p += 1.0
        rc[r] = (round(max(0.0, g + rng.uniform(-case["noise"], case["noise"])), 2),
                 round(max(0.0, p + rng.uniform(-case["noise"], case["noise"])), 2) if len(gene.regions) > 1 else 0.0)
    if len(gene.regions) > 1 and gene.deletion_allele() and rng.random() < 0.15 and not case.get("tight"):
        # hardly any gene depth, pseudogene depth of two or more copies: only whole-gene deletions (and
        # extra pseudogene copies) can explain it
        k = rng.choice([2.0, 2.5, 3.0, 3.5, 4.0])
        rc = {r: (round(max(0.0, rng.uniform(0, 0.15)), 2), round(k + rng.uniform(-0.2, 0.2), 2))
              for r in gene.unique_regions}
        cn = []
    fs = None
    if case["fusion_support"]:
        fs = {n: rng.choice([0.0, 0.05, 0.2, 0.6]) for n, c in gene.cn_configs.items()
              if str(c.kind).endswith("FUSION")}
        if fs:
            stats["fusion_support_cases"] += 1
        else:
            fs = None
    stats["cases"] += 1
    detail0 = {"gene": gname, "planted": cn, "depths": {k: list(v) for k, v in rc.items()}, "max_cn": max_cn,
               "gap": case["gap"], "fusion_support": fs}
    ev = Evaluator(gene, profile, gene.cn_configs, max_cn, rc, fs)

    table0 = canon.gene(gene)["cn_configs"]

    # the depth table may hold every region of the gene ("for each genic region"): entries of regions that are
    # not copy-number regions are none of the model's business
    rc_given = dict(rc)
    if rng.random() < 0.3:
        for r_ in gene.regions[0]:
            if r_ not in rc_given:
                rc_given[r_] = (round(rng.uniform(1.5, 2.5), 2), round(rng.uniform(1.5, 2.5), 2) if len(gene.regions) > 1 else 0.0)
        if len(rc_given) > len(rc):
            stats["extra_region_cases"] = stats.get("extra_region_cases", 0) + 1

    def call():
        # the configuration table handed in is the gene's own, exactly as aldy's test-suite calls it
        sols = CN.solve_cn_model(gene, profile, gene.cn_configs, max_cn, dict(rc_given), "cbc", fusion_support=fs)
        now = canon.gene(gene)["cn_configs"]
        if now != table0 and not any(v["clause"].startswith("structure stage modified") for v in viol):
            viol.append({"clause": "structure stage modified the configuration table it was given",
                         "detail": dict(detail0, diff=canon.first_diff(table0, now))})
        return sols

    def per_solution(sols, mode):
        keys = []
        for s in sols:
            stats["solutions"] += 1
            S = Counter({k: v for k, v in s.solution.items() if v})
            key = tuple(sorted(S.elements()))
            d = dict(detail0, solver=mode, structure=list(key), score=s.score)
            other = sum(v for k, v in S.items() if k != "1")
            if any(k == gene.deletion_allele() for k in S):
                viol.append({"clause": "the whole-gene deletion is listed explicitly in a reported structure", "detail": d})
            if other > 2 or any(v > 2 for k, v in S.items() if k != "1"):
                viol.append({"clause": "a fusion configuration is used more than twice / more than two complete "
                                       "non-default configurations", "detail": d})
                continue
            complete = other + min(2, S.get("1", 0))
            if complete < 2 and not gene.deletion_allele():
                viol.append({"clause": "fewer than two complete haplotype configurations and no deletion allele exists",
                             "detail": d})
                continue
            want = ev.score_structure(S)
            if want is None:
                viol.append({"clause": "reported structure is not admissible", "detail": d})
                continue
            if abs(want - s.score) > TOL:
                viol.append({"clause": "reported score differs from the documented objective of the best explanation "
                                       "of that structure", "detail": dict(d, recomputed=want)})
            keys.append((key, want))
            if complete < 2:
                stats["with_deletion"] += 1
            if other:
                stats["with_fusion"] += 1
            if S.get("1", 0) > 2 or (S.get("1", 0) > 2 - other):
                stats["with_extra"] += 1
        if len({k for k, _ in keys}) != len(keys):
            viol.append({"clause": "a structure is reported more than once", "detail": dict(detail0, solver=mode)})
        return keys

    def containment(reported, table, mode):
        if not table:
            if reported:
                viol.append({"clause": "a structure is reported although none is admissible", "detail": detail0})
            return
        opt = min(table.values())
        if not reported:
            viol.append({"clause": "an admissible structure exists but nothing is reported",
                         "detail": dict(detail0, solver=mode, optimum=opt)})
            return
        best = min(o for _, o in reported)
        if abs(best - opt) > TOL:
            viol.append({"clause": "an admissible structure scores lower than the best reported one",
                         "detail": dict(detail0, solver=mode, best_reported=best, optimum=opt,
                                        witness=list(min(table, key=table.get)))})
            return
        ub = (1 + case["gap"]) * opt
        rep = {k: o for k, o in reported}
        for k, o in rep.items():
            if o > ub + BAND + 1e-5:
                viol.append({"clause": "a reported structure lies outside the gap",
                             "detail": dict(detail0, solver=mode, structure=list(k), score=o, optimum=opt)})
        for k, o in table.items():
            if k in rep or o > ub + 1e-6:
                continue
            ck = Counter(k)
            if not any((Counter(rk) - ck) == Counter() and ro <= o + TOL for rk, ro in rep.items()):
                viol.append({"clause": "an admissible within-gap structure is neither reported nor contains a "
                                       "reported structure that scores no worse",
                             "detail": dict(detail0, solver=mode, structure=list(k), score=o, optimum=opt,
                                            reported=[[list(a), round(b, 4)] for a, b in rep.items()][:6])})
                break

    SIM.reset({"max_solves": 4000, "max_wall": 90.0, "monitor": True})
    sols = call()
    stats["runs"] += 1
    nsolves = SIM.solve_index
    plain = per_solution(sols, "plain")
    if plain:
        stats["shapes"].add(canon.digest([gname if gname != "world" else canon.digest(case["gene"])[:8], rc, max_cn, case["gap"]])[:12])
    if len(plain) >= 2:
        stats["ge2"] += 1
    if not sample:
        sample.append({"planted": cn, "depths": {k: list(v) for k, v in rc.items()},
                       "reported": [[list(k), round(o, 4)] for k, o in plain][:5]})
    table = ev.brute()
    stats["brute_structs"] += len(table)
    containment(plain, table, "plain")
    for a in seg["advs"]:
        SIM.reset({"max_solves": 4000, "max_wall": 90.0, "adversary": a, "monitor": True})
        sols2 = call()
        stats["runs"] += 1
        adv = per_solution(sols2, f"adversary:{a}")
        for k, v in SIM.fired.items():
            stats["fired"][k] = stats["fired"].get(k, 0) + v
        containment(adv, table, f"adversary:{a}")
        b1 = min((o for _, o in plain), default=None)
        b2 = min((o for _, o in adv), default=None)
        if (b1 is None) != (b2 is None) or (b1 is not None and abs(b1 - b2) > TOL):
            viol.append({"clause": "best structure score depends on which optimum the solver returns",
                         "detail": dict(detail0, plain=b1, adversary=b2, seed=a)})
    SIM.reset({"max_solves": 4000, "max_wall": 90.0, "jitter": seg["jitter"], "monitor": True})
    j = per_solution(call(), "jitter")
    stats["runs"] += 1
    if {k for k, _ in j} != {k for k, _ in plain}:
        viol.append({"clause": "integrality jitter changes the reported structures", "detail": detail0})
    frng = random.Random(seg["fault_seed"] ^ case["seed"])
    if nsolves:
        k = frng.randrange(nsolves)
        kind = frng.choice(["infeasible", "abnormal", "not_solved", "incumbent", "verify"])
        SIM.reset({"max_solves": 4000, "max_wall": 90.0, "faults": [{"at": k, "kind": kind, "seed": k}], "monitor": False})
        f = per_solution(call(), f"fault:{kind}@{k}")
        stats["runs"] += 1
        stats["faults"] += 1
        for kk, v in SIM.fired.items():
            stats["fired"][kk] = stats["fired"].get(kk, 0) + v
        if not {x for x, _ in f} <= {x for x, _ in plain}:
            viol.append({"clause": "a faulted enumeration reported a structure the fault-free one did not",
                         "detail": dict(detail0, fault=[k, kind])})
        if len(f) < len(plain):
            stats["truncated"] += 1
    if fs:
        # the same depths through estimate_cn(), which derives the support values from the long-read counters
        # [reads showing the fusion, reads spanning its break point] (0 when no read spans it) and the
        # maximum copy number from the depths (one more than the largest region depth, rounded up)
        import math
        from aldy.common import AldyException

        allzero = frng.random() < 0.35
        counters, fs2 = {}, {}
        for n, v in sorted(fs.items()):
            if allzero or (v == 0.0 and frng.random() < 0.5):
                a, b = 0, 0
            elif v == 0.0:
                a, b = 0, 7
            else:
                b = frng.choice([10, 20, 40])
                a = max(1, round(v * b))
            counters[n] = [a, b]
            fs2[n] = (a / b) if b else 0.0

        class _Sam:
            _fusion_counter = counters

        class _Cov:
            sam = _Sam()

            def __init__(self):
                self.profile = profile

            def region_coverage(self, gi, r):
                return rc[r][gi] if r in rc else 2.0

            def filtered(self, fn):
                return self

            def __getitem__(self, m):
                return 10

        mo = 1 + max(math.ceil(_Cov().region_coverage(gi, r)) for gi, g in enumerate(gene.regions) for r in g)
        ev = Evaluator(gene, profile, gene.cn_configs, mo, rc, fs2)
        detail0 = dict(detail0, route="estimate_cn", fusion_read_counters=counters, fusion_support=fs2, max_cn=mo)
        SIM.reset({"max_solves": 4000, "max_wall": 90.0, "monitor": True})
        try:
            sols3 = CN.estimate_cn(gene, profile, _Cov(), "cbc")
        except AldyException:
            sols3 = None
        stats["runs"] += 1
        if sols3 is not None:
            stats["via_counters"] = stats.get("via_counters", 0) + 1
            if allzero:
                stats["via_counters_all_zero"] = stats.get("via_counters_all_zero", 0) + 1
            rep3 = per_solution(sols3, "estimate_cn")
            containment(rep3, ev.brute(), "estimate_cn")


def config_clauses(seg, viol, stats):
    """User structure verbatim, unknown names rejected, defaults when calling is unavailable."""
    import aldy.cn as CN
    from aldy.common import AldyException
    from aldy.profile import Profile

    rng = random.Random(seg["fault_seed"])
    for spec in ({"kind": "toy"}, {"kind": "world", "world": SL.gen_stage_world(rng)}):
        gene = SL.load_gene(spec)
        names = list(gene.cn_configs)
        user = [rng.choice(names) for _ in range(rng.randint(1, 4))]
        stats["config_checks"] += 4
        r = CN.estimate_cn(gene, Profile("user_provided", cn_solution=user), None, "cbc")
        if len(r) != 1 or Counter(r[0].solution) != Counter(user):
            viol.append({"clause": "user-supplied structure is not used verbatim",
                         "detail": {"given": user, "got": [dict(x.solution) for x in r]}})
        try:
            CN.estimate_cn(gene, Profile("user_provided", cn_solution=user + ["no-such-config"]), None, "cbc")
            viol.append({"clause": "unknown configuration name was not rejected", "detail": {"given": user}})
        except AldyException:
            pass
        # one Profile object for a panel of genes (an API user does that): what one call assumed for a gene
        # without copy-number calling must not become the next gene's "user-supplied" structure
        shared = Profile("test", male=True)
        chr0 = gene.chr
        gene.do_copy_number = False
        gene.chr = "X"
        r1 = CN.estimate_cn(gene, shared, None, "cbc")
        gene.chr = chr0
        r2 = CN.estimate_cn(gene, shared, None, "cbc")
        if sum(r1[0].solution.values()) != 1 or sum(r2[0].solution.values()) != 2 or shared.cn_solution:
            viol.append({"clause": "default copies when copy-number calling is unavailable are wrong",
                         "detail": {"history": "one Profile object: male X-linked gene, then an autosomal gene",
                                    "got": [dict(r1[0].solution), dict(r2[0].solution)],
                                    "profile_cn_solution_afterwards": shared.cn_solution}})
        gene.do_copy_number = False
        for male, chrom, want in ((False, gene.chr, 2), (True, "X", 1), (True, gene.chr, 2), (False, "X", 2)):
            gene.chr = chrom
            r = CN.estimate_cn(gene, Profile("test", male=male), None, "cbc")
            if len(r) != 1 or sum(r[0].solution.values()) != want or set(r[0].solution) != {"1"}:
                viol.append({"clause": "default copies when copy-number calling is unavailable are wrong",
                             "detail": {"male": male, "chr": chrom, "got": [dict(x.solution) for x in r],
                                        "expected_copies": want}})


def pipeline_clauses(seg, viol, stats):
    """The user-structure / default-copies clauses through genotype() on the inputs for which the profile
    is not simply built from the arguments: a debug archive (the pickled profile is used) and a VCF
    (copy-number calling unavailable).  The run is stopped as soon as the structure stage has returned."""
    import tempfile

    import pysam
    from aldy.common import script_path
    from aldy.gene import Gene
    from aldy.genotype import genotype

    class _Stop(Exception):
        pass

    def hook(e):
        if e["stage"] == "estimate_major":
            raise _Stop()

    def structure(db, src, **kw):
        SIM.stage_calls.clear()
        SIM.stage_hook = hook
        try:
            genotype(db, src, kw.pop("profile", None), output_file=None, solver="cbc", **kw)
        except _Stop:
            pass
        except Exception as ex:
            return {"exc": f"{type(ex).__name__}: {ex}"[:200]}
        finally:
            SIM.stage_hook = None
        for c in SIM.stage_calls:
            if c["stage"] == "estimate_cn" and c["ret"]:
                return {k: v for k, v in c["ret"][0].solution.items() if v}
        return {"exc": "structure stage not reached"}

    stats["config_checks"] += 4
    dump = script_path("aldy.tests.resources/HARD.dump.tar.gz")
    got = structure("pharmacoscan/cyp2d6", dump, cn_solution=["1", "1"])
    if got != {"1": 2}:
        viol.append({"clause": "user-supplied structure is not used verbatim",
                     "detail": {"input": "debug archive (HARD.dump.tar.gz)", "given": ["1", "1"], "got": got}})
    # a one-record VCF over G6PD (chromosome X), reference genotype
    g = Gene(script_path("aldy.resources.genes/g6pd.yml"), genome="hg19")
    d = tempfile.mkdtemp(prefix="c03vcf-", dir=os.environ.get("ALDYSIM_SCRATCH") or None)
    try:
        pos = sorted(g.chr_to_ref)[len(g.chr_to_ref) // 2]
        ref = g[pos]
        alt = "A" if ref != "A" else "C"
        path = os.path.join(d, "x.vcf")
        with open(path, "w") as f:
            f.write("##fileformat=VCFv4.2\n##contig=<ID=%s,length=160000000>\n" % g.chr)
            f.write('##FORMAT=<ID=GT,Number=1,Type=String,Description="Genotype">\n')
            f.write("#CHROM\tPOS\tID\tREF\tALT\tQUAL\tFILTER\tINFO\tFORMAT\tS1\n")
            f.write(f"{g.chr}\t{pos + 1}\t.\t{ref}\t{alt}\t.\t.\t.\tGT\t0/0\n")
        vcf = pysam.tabix_index(path, preset="vcf", force=True)
        for kw, want, clause in (
            ({"male": True}, {"1": 1}, "default copies when copy-number calling is unavailable are wrong"),
            ({}, {"1": 2}, "default copies when copy-number calling is unavailable are wrong"),
            ({"cn_solution": ["1"]}, {"1": 1}, "user-supplied structure is not used verbatim"),
        ):
            got = structure("g6pd", vcf, genome="hg19", **dict(kw))
            if got != want:
                viol.append({"clause": clause, "detail": {"input": "VCF over an X-linked gene (G6PD)", "arguments": kw,
                                                          "expected": want, "got": got}})
    finally:
        import shutil

        shutil.rmtree(d, ignore_errors=True)


def run_segment(seg):
    viol, sample = [], []
    stats = {"cases": 0, "runs": 0, "solutions": 0, "brute_structs": 0, "fired": {}, "ge2": 0, "shapes": set(),
             "genes": {}, "with_deletion": 0, "with_fusion": 0, "with_extra": 0, "faults": 0, "truncated": 0,
             "config_checks": 0, "fusion_support_cases": 0, "via_counters": 0, "via_counters_all_zero": 0}
    for case in seg["cases"]:
        run_case(case, seg, viol, stats, sample)
    if seg.get("config_clauses"):
        SIM.reset({"max_solves": 4000, "max_wall": 90.0})
        config_clauses(seg, viol, stats)
        stats["runs"] += 1
    if seg.get("pipeline_clauses"):
        SIM.reset({"max_solves": 4000, "max_wall": 90.0})
        pipeline_clauses(seg, viol, stats)
        stats["runs"] += 1
    stats["shapes"] = sorted(stats["shapes"])
    return {"violations": viol[:10], "stats": stats, "sample": sample[:1]}

"""C19 - no genotype is reported from no data.

Simulator-owned dimension: data-loss faults on the alignment stream (gene locus,
gene only, neutral region, whole file, depth relative to the configured minimum,
read error at the k-th record), enumerated against the profile route (YAML profile,
BAM as profile, user-supplied structure), the output format and single / multi-gene
runs.
"""

import copy
import os
import random

from .. import canon
from .. import ops as O
from .. import workload as WL
from .. import world as W
from ..seams import SIM

ID = "C19"
LEVEL = "fault_enumeration"
SEGMENT_TIMEOUT = 180
TIERS = {
    "quick": dict(plans=280, budget_s=70, worlds=4, det_plans=2),  # (one walk through the applicable grid and a bit)
    "thorough": dict(plans=6000, budget_s=900, worlds=150, det_plans=8, always_selftest=True),
}
LOSSES = ["thin", "contig_absent", "neutral_contig_absent", "depth_just_below", "depth_just_above", "locus_skipped", "locus", "locus_decoy_sam", "locus_sliver", "gene_only", "neutral", "neutral_sparse", "empty", "depth_below", "depth_above", "stream_error", "seam_drop_locus"]
ROUTES = ["yml", "bam", "cn", "cn_dump"]
OUTS = ["aldy", "vcf", "simple", "none"]
# full factorial of loss x route x output x {single, multi}; a batch walks through it
GRID = [(l, r, o, m) for l in LOSSES for r in ROUTES for o in OUTS for m in (False, True)]


def applicable(loss, route, multi):
    if route == "cn_dump":
        # history: the lossy sample is genotyped with --debug and a user-supplied structure, then the
        # archive is genotyped; only for the losses that leave the whole locus without reads
        return loss in ("locus", "empty", "thin") and not multi
    if loss == "neutral_contig_absent":
        # the header does not list the chromosome of the neutral region (only consulted with a profile)
        return route in ("yml", "bam") and not multi
    if loss == "contig_absent":
        # the file's header does not list the gene's chromosome at all (a panel / trimmed header); both
        # generated genes live on one contig, so only single-gene runs
        return route in ("yml", "bam", "cn") and not multi
    if route == "cn" and loss in ("neutral", "neutral_sparse"):
        return False  # no neutral region is consulted with a user-supplied structure
    if route == "cn" and loss == "gene_only":
        return False  # statement does not say what a user-fixed structure means without gene reads
    if multi and loss == "locus_decoy_sam":
        return False  # text SAM has no index: indel evidence of every gene is lost (not C19's business)
    if loss in ("depth_just_below", "depth_just_above"):
        return not multi and route != "cn_dump"
    if loss == "locus_skipped":
        return route != "cn_dump"
    if multi and loss in ("neutral", "neutral_sparse", "neutral_contig_absent", "empty", "depth_below", "depth_above", "stream_error"):
        return False  # these hit every gene of the run
    return True


def gen_world(seed, wi):
    rng = random.Random(f"C19:{seed}:w:{wi}")
    ga = WL.gene_opts(rng, small=True)
    ga.update(lfusion=False, rfusion=False)
    if wi % 2 == 0:
        ga.update(pseudo=True, deletion=True)
    if wi % 4 == 0:
        # copy number judged on two of nine regions (the low-depth guards must cope with that)
        ga.update(cn_subset="two", n_exons=4)
    gb = WL.gene_opts(rng, small=True)
    ro = WL.read_opts(rng)
    world = W.gen_world(rng, 2, [ga, gb], ro, margin=max(200, ro["L"] + 60))
    if wi % 3 == 1:
        # the neutral locus on a chromosome of its own (as CYP2D8 is for most genes)
        world["neutral_contig"] = {"name": "21", "offset": rng.randint(-300, 300)}
    smp = {"name": "s0", "genes": {}, "phase_seed": rng.randint(0, 999)}
    for g in world["genes"]:
        # healthy two-or-more-copy sample: the gene itself must have reads before the loss
        units = WL._gen_units(rng, g)
        if all(u["type"] == "deletion" for u in units):
            units[0] = {"type": "normal", "allele": "1.001"}
        smp["genes"][g["name"]] = units
    return {"world": world, "samples": {"s0": smp}, "build": "hg19"}


def gen_plan(rng, tier, i, seed):
    cfg = TIERS[tier]
    cells = [c for c in GRID if applicable(c[0], c[1], c[3])]
    loss, route, out, multi = cells[i % len(cells)]
    w = gen_world(seed, (i // len(cells) + i) % cfg["worlds"])
    if loss in ("contig_absent", "neutral_contig_absent"):
        # needs a world whose neutral locus is on another chromosome than the gene
        w = gen_world(seed, 1 + 3 * ((i // len(cells)) % max(1, cfg["worlds"] // 3)))
    return {"w": w, "loss": loss, "route": route, "out": out, "multi": multi,
            "hashseed": rng.choice([0, 1, 2]),
            "k": rng.choice([0, 1, 5, 50, 200]), "which_open": rng.choice([2, 3]),
            # history: the healthy sample (same file name) is genotyped first in the same process
            "warm": rng.choice([False, "healthy", "healthy", "exome"]),
            "err": rng.choice(["OSError", "OSError", "ValueError"]),
            # configured minimum of zero: no depth is "below the minimum" any more, but a locus that no
            # read covers must still be refused
            "min_avg_zero": rng.random() < 0.3,
            # multi-gene run: the healthy gene listed before or after the gene that lost its data
            "healthy_first": rng.random() < 0.5,
            # history: the archive was written by an earlier aldy, whose stored profile lacks the parameters
            # added since (the loader fills in their documented defaults)
            "old_archive": rng.random() < 0.5}


def _materialise(runner, w):
    wd = canon.digest([w["world"], w["samples"], w["build"]])

    def make():
        d = os.path.join(runner.root, f"world-{wd}")
        return d, runner.segment({"kind": "materialise", "hashseed": 0, "world": w["world"],
                                  "samples": w["samples"], "build": w["build"], "dir": d})

    return wd, runner.memoised(("world", wd), make)


def execute(plan, runner, rundir):
    w = plan["w"]
    wd, (worlddir, man) = _materialise(runner, w)
    common = {"worlddir": worlddir, "man": man, "build": w["build"],
              "gene_a": w["world"]["genes"][0]["name"], "gene_b": w["world"]["genes"][1]["name"]}

    def pilot(route, out):
        def f():
            rd = runner.new_dir("pilot")
            try:
                return runner.segment(dict(common, kind="pilot", hashseed=0, rundir=rd, route=route, out=out))
            finally:
                import shutil

                shutil.rmtree(rd, ignore_errors=True)

        return runner.memoised(("pilot", wd, route, out), f)

    pil = pilot(plan["route"], plan["out"])
    res = runner.segment(dict(common, kind="loss", hashseed=plan["hashseed"], rundir=rundir, route=plan["route"],
                              out=plan["out"], loss=plan["loss"], multi=plan["multi"], avg=pil["avg_a"],
                              k=plan["k"], which_open=plan["which_open"], err=plan["err"],
                              warm=plan.get("warm", False), min_avg_zero=plan.get("min_avg_zero", False),
                              healthy_first=plan.get("healthy_first", False),
                              old_archive=plan.get("old_archive", False)))
    return {"pilot": pil, "run": res}


def _msg_key(exc):
    import re

    return re.sub(r"[0-9][0-9.:\-]*", "#", (exc or {}).get("msg", ""))[:48]


def _v(clause, **detail):
    return {"clause": clause, "detail": detail}


def judge(plan, outcome):
    vs = []
    pil, r = outcome["pilot"], outcome["run"]
    loss, route, out, multi = plan["loss"], plan["route"], plan["out"], plan["multi"]
    ga = plan["w"]["world"]["genes"][0]
    a = ga["name"]
    sample = r["sample_name"]
    env = {"loss": loss, "route": route, "out": out, "multi": multi, "gene": a}
    res_a = [x for x in (r["result"] or []) if x[0] == a.lower() + ".yml"]
    called = bool(res_a) and any(len(x[1]) > 0 for x in res_a)
    has_del = any(al["kind"] == "deletion" for al in ga["alleles"]) and ga["pregions"] is not None
    fired = r["fired"]
    expect_error = loss in ("thin", "contig_absent", "neutral_contig_absent", "depth_just_below", "locus_skipped", "locus", "locus_decoy_sam", "neutral", "neutral_sparse", "empty", "depth_below", "seam_drop_locus")
    if loss == "gene_only" and not has_del:
        # reads cover the pseudogene but the database has no whole-gene deletion allele: the statement
        # does not say what must happen (the locus is covered, a deletion cannot be called)
        return vs
    if loss == "gene_only":
        expect_error = False
    if loss == "stream_error":
        expect_error = bool(fired.get("stream_error"))
    if loss in ("depth_above", "depth_just_above"):
        expect_error = False
    if loss == "locus_sliver":
        # a sliver of the locus is covered at full depth: the statement neither demands nor forbids a
        # call; whatever happens, error and output must be consistent
        expect_error = not called
        if expect_error and not multi and not r["exc"]:
            vs.append(_v("no call and no error for a partly covered locus", **env))
    if expect_error:
        if called:
            vs.append(_v("a genotype was reported although the data are missing",
                         reported=[s["major_diplotype"] for s in res_a[0][1]][:3], **env))
        if not multi:
            if not r["exc"]:
                vs.append(_v("run did not end with an error although the data are missing", **env))
            elif loss != "stream_error" and not r["exc"].get("aldy"):
                vs.append(_v("missing data did not produce an explanatory (Aldy) error", exc=r["exc"], **env))
            elif loss == "stream_error" and r["exc"].get("type") not in ("OSError", "ValueError"):
                # the injected read error itself must surface; an error (or a call) computed from the
                # records delivered before it means the failure was swallowed
                vs.append(_v("a read error in the alignment stream did not surface as such", exc=r["exc"], **env))
        # output
        o = r["output"] or ""
        if out == "simple":
            lines = [l for l in o.split("\n") if l.split("\t")[:2] == [sample, a]]
            if loss != "stream_error" and not (lines == [f"{sample}\t{a}\t"] and f"{sample}\t{a}\t\n" in o):
                if not lines:
                    vs.append(_v("simple output has no result line at all for the failed gene",
                                 error=_msg_key(r["exc"]), **env))
                else:
                    vs.append(_v("simple output lacks the empty result line for the failed gene",
                                 lines=lines[:3], **env))
        elif out in ("aldy", "vcf"):
            rows = [l for l in o.split("\n") if l and not l.startswith("#") and
                    (l.split("\t")[1:2] == [a] or f"GENE={a}" in l)]
            if rows:
                vs.append(_v("allele rows for a gene without data in the output", rows=rows[:2], **env))
    else:
        if not called:
            vs.append(_v("no call although the data are sufficient", exc=r["exc"], **env))
        elif loss == "locus_sliver":
            pass
        elif loss == "gene_only":
            # reads cover only the pseudogene: two whole-gene deletions
            for s in res_a[0][1]:
                if s["solution"] or sum(n for _, n in s["major"]["cn"]["solution"]) != 0:
                    vs.append(_v("pseudogene-only sample not called as a whole-gene deletion",
                                 got=s["major_diplotype"], **env))
                    break
        elif loss in ("depth_above", "depth_just_above", "stream_error"):
            want = [x for x in pil["result"] if x[0] == a.lower() + ".yml"]
            d = canon.first_diff(canon.strip_scores(res_a), canon.strip_scores(want))
            if d:
                vs.append(_v("call differs from the healthy run although nothing was lost", diff=d, **env))
    if multi:
        b = plan["w"]["world"]["genes"][1]["name"]
        got = [x for x in (r["result"] or []) if x[0] == b.lower() + ".yml"]
        want = [x for x in pil["result_b"] if x[0] == b.lower() + ".yml"]
        d = canon.first_diff(canon.strip_scores(got), canon.strip_scores(want))
        if d:
            vs.append(_v("healthy gene of a multi-gene run changed because another gene had no data", diff=d, **env))
    return vs


def signature(v):
    d = v["detail"]
    if "error" in d:
        return {"clause": v["clause"], "error": d["error"]}
    return {"clause": v["clause"], "loss": d.get("loss"), "route": d.get("route")}


def shrink(plan):
    if plan["multi"]:
        p = copy.deepcopy(plan)
        p["multi"] = False
        yield p
    if plan["out"] != "none":
        p = copy.deepcopy(plan)
        p["out"] = "none"
        yield p
    if plan["hashseed"] != 0:
        p = copy.deepcopy(plan)
        p["hashseed"] = 0
        yield p
    if plan.get("warm"):
        p = copy.deepcopy(plan)
        p["warm"] = False
        yield p


def new_stats():
    return {"plans": 0, "cells": set(), "fired": {}, "errors": 0, "calls": 0, "deletion_calls": 0,
            "worlds": set(), "multi": 0}


def count_evaluations(plan, out):
    return 1


def update_stats(acc, plan, out):
    acc["plans"] += 1
    r = out["run"]
    if r["effective"]:
        acc["cells"].add((plan["loss"], plan["route"], plan["out"], plan["multi"]))
    acc["fired"][plan["loss"]] = acc["fired"].get(plan["loss"], 0) + (1 if r["effective"] else 0)
    for k, v in r["fired"].items():
        acc["fired"][k] = acc["fired"].get(k, 0) + v
    acc["worlds"].add(canon.digest(plan["w"])[:10])
    if r["exc"]:
        acc["errors"] += 1
    if r["result"]:
        acc["calls"] += 1
    if plan["loss"] == "gene_only" and r["result"]:
        acc["deletion_calls"] += 1
    acc["multi"] += int(plan["multi"])


def sample_view(plan, out):
    return {"loss": plan["loss"], "route": plan["route"], "out": plan["out"], "multi": plan["multi"],
            "sample": plan["w"]["samples"]["s0"]["genes"], "exc": out["run"]["exc"],
            "output": (out["run"]["output"] or "")[:200], "records_kept": out["run"].get("records")}


def evidence(acc):
    total = len([c for c in GRID if applicable(c[0], c[1], c[3])])
    return {
        "coverage": {
            "distinct_nontrivial": len(acc["cells"]),
            "rule": "one evaluation = one genotype() call on a sample that lost data; distinct_nontrivial = distinct "
                    "(loss kind, profile route, output format, single/multi) cells in which the loss actually took "
                    f"effect; the applicable grid has {total} cells",
            "grid_cells_applicable": total,
            "exhaustive": len(acc["cells"]) >= total - 8,
            "plans": acc["plans"],
            "worlds": len(acc["worlds"]),
            "fault_kinds_fired": acc["fired"],
            "probes": {"runs_ending_in_error": acc["errors"], "runs_with_a_call": acc["calls"],
                       "pseudogene_only_runs_called": acc["deletion_calls"], "multi_gene_runs": acc["multi"]},
            "components": {
                "real": ["aldy.genotype.genotype and below", "pysam/htslib", "CBC"],
                "stub": ["container writer that omits records by region (files on tmpfs)",
                         "AlignmentFile subclass dropping records / raising a read error at the k-th record"],
            },
        },
        "assumptions": [
            "neutral-region loss and gene-only loss are not combined with a user-supplied structure (the statement "
            "does not settle them)",
            "stream read errors must surface as an exception of any type; data loss must surface as AldyException",
        ],
    }


# ---------------------------------------------------------------------------
# child side


def _lossy_bam(seg, world, smp, loss, path):
    """Container writer that omits records."""
    reads = W.sample_reads(world, smp)
    n_all = len(reads)
    ga = next(g for g in world["genes"] if g["name"] == seg["gene_a"])
    spans = []
    pad = 0
    if loss in ("locus",):
        regs = list(ga["regions"]) + list(ga["pregions"] or [])
        spans = [(min(a for _, a, b in regs) - pad, max(b for _, a, b in regs) + pad)]
        if ga["pregions"]:
            spans = [(min(a for _, a, b in ga["regions"]), max(b for _, a, b in ga["regions"])),
                     (min(a for _, a, b in ga["pregions"]), max(b for _, a, b in ga["pregions"]))]
    elif loss == "gene_only":
        spans = [(min(a for _, a, b in ga["regions"]), max(b for _, a, b in ga["regions"]))]
    elif loss in ("neutral", "neutral_sparse"):
        spans = [tuple(world["neutral"])]
    elif loss == "empty":
        reads = []

    if loss == "contig_absent":
        kept = [r for r in reads if r[3].startswith("n")]
        W.write_bam(path, world, kept, build=seg["build"], omit_main=True)
        return n_all, len(kept)
    if loss == "neutral_contig_absent":
        kept = [r for r in reads if not r[3].startswith("n")]
        W.write_bam(path, world, kept, build=seg["build"], omit_neutral_contig=True)
        return n_all, len(kept)

    def ref_end(r):
        return r[0] + sum(n for op, n in r[1] if op in (0, 2))

    if loss == "locus_decoy_sam":
        # whole-genome text SAM without index: the locus itself has no reads, but another contig has
        # reads at the very same coordinates
        regs = list(ga["regions"]) + list(ga["pregions"] or [])
        spans = [(min(a for _, a, b in ga["regions"]), max(b for _, a, b in ga["regions"]))]
        if ga["pregions"]:
            spans.append((min(a for _, a, b in ga["pregions"]), max(b for _, a, b in ga["pregions"])))
        decoy = [r for r in reads if any(r[0] < b and a < ref_end(r) for a, b in spans)]
        kept = [r for r in reads if r not in decoy]
        clen = len(world["contig"]["seq"])
        W.write_bam(path, world, kept, build=seg["build"], fmt="sam", sort=False, index=False,
                    header_extra=[{"SN": "decoy", "LN": clen}],
                    extra_records=[(r[0], r[1], r[2], r[3], 0, 60, 40, 1) for r in decoy])
        return len(reads), len(kept)
    if loss == "locus_skipped":
        # no read has an aligned base in the locus, but spliced-style reads (CIGAR 40M<n>N40M) jump over each
        # body of it: their skipped part is not sequence of the sample
        bodies = [(min(a for _, a, b in ga["regions"]), max(b for _, a, b in ga["regions"]))]
        if ga["pregions"]:
            bodies.append((min(a for _, a, b in ga["pregions"]), max(b for _, a, b in ga["pregions"])))
        kept = [r for r in reads if not any(r[0] < b and a < ref_end(r) for a, b in bodies)]
        contig = world["contig"]["seq"]
        extra = []
        for bi, (a, b) in enumerate(bodies):
            for j in range(20):
                st = a - 45 - j
                left, right = contig[st:st + 40], contig[b + 5 + j:b + 45 + j]
                ops = [(0, 40), (3, b + 5 + j - (st + 40)), (0, 40)]
                extra.append((st, ops, left + right, f"skip{bi}.{j}"))
        W.write_bam(path, world, kept + extra, build=seg["build"])
        return n_all, len(kept)
    kept = [r for r in reads if not any(r[0] < b and a < ref_end(r) for a, b in spans)]
    if loss == "thin":
        # every n-th read of the locus survives: evenly covered at an average depth between 0 and about
        # 1, below the documented default minimum of 2 (no parameter is given)
        regs = list(ga["regions"]) + list(ga["pregions"] or [])
        lo, hi = min(a for _, a, b in regs), max(b for _, a, b in regs)
        inside = sorted((r for r in reads if r[0] < hi and lo < ref_end(r)), key=lambda r: (r[0], r[3]))
        stride = int(seg["avg"]) + 2
        keep_in = set(r[3] for r in inside[::stride])
        kept = [r for r in reads if not (r[0] < hi and lo < ref_end(r)) or r[3] in keep_in]
    if loss == "locus_sliver":
        # of all locus reads only those touching the gene's `up` region survive (full depth there and a
        # little spill-over into the first exon; nothing anywhere else in the locus)
        regs = list(ga["regions"]) + list(ga["pregions"] or [])
        lo, hi = min(a for _, a, b in regs), max(b for _, a, b in regs)
        ua, ub = next((a, b) for nm, a, b in ga["regions"] if nm == "up")
        kept = [r for r in reads if not (r[0] < hi and lo < ref_end(r)) or (r[0] < ub and ua < ref_end(r))]
    if loss == "neutral_sparse":
        # a single read survives in the neutral region: depth far below 2
        c0, c1 = world["neutral"]
        inside = [r for r in reads if c0 <= r[0] and ref_end(r) <= c1]
        kept += inside[:1]
    W.write_bam(path, world, kept, build=seg["build"])
    return n_all, len(kept)


def _age_archive(arch):
    """The archive as an aldy before the parameters display_format / debug_probe / debug_novel /
    min_avg_coverage existed would have written it: the stored profile has no such attributes."""
    import gzip
    import io
    import pickle
    import tarfile

    with tarfile.open(arch, "r:gz") as t:
        items = [(m, t.extractfile(m).read() if m.isfile() else None) for m in t.getmembers()]
    out = []
    for m, data in items:
        if data is not None and m.name.endswith(".dump"):
            tup = list(pickle.loads(gzip.decompress(data)))
            for n in ("display_format", "debug_probe", "debug_novel", "min_avg_coverage"):
                tup[1].__dict__.pop(n, None)
            data = gzip.compress(pickle.dumps(tuple(tup)), mtime=0)
            m.size = len(data)
            SIM.fire("archive_aged")
        out.append((m, data))
    with tarfile.open(arch, "w:gz") as t:
        for m, data in out:
            t.addfile(m, io.BytesIO(data) if data is not None else None)


def run_segment(seg):
    from .. import streams

    if seg["kind"] == "materialise":
        man = O.materialise(seg["world"], seg["dir"], seg["samples"], build=seg["build"], profile_yaml=True)
        man["world"] = seg["world"]
        man["sample"] = seg["samples"]["s0"]
        return man
    streams.install_stream_seam()
    streams.reset()
    wd, man, rd = seg["worlddir"], seg["man"], seg["rundir"]
    os.makedirs(rd, exist_ok=True)
    os.chdir(rd)
    world, smp = man["world"], man["sample"]
    a, b = seg["gene_a"], seg["gene_b"]
    route = seg["route"]
    prof, cnr, cns = None, None, None
    if route == "cn_dump":
        cns = ["1", "1"]
    elif route == "yml":
        prof = os.path.join(wd, man["profile_yml"])
    elif route == "bam":
        prof, cnr = os.path.join(wd, man["ref_bam"]), man["neutral"]
    else:
        cns = ["1", "1"]
    outp = os.path.join(rd, f"o.{seg['out']}") if seg["out"] != "none" else None
    dba, dbb = os.path.join(wd, man["db"][a]), os.path.join(wd, man["db"][b])
    if seg["kind"] == "pilot":
        rec = O.run_genotype(dba, os.path.join(wd, man["samples"]["s0"]), prof, outp, cn_region=cnr,
                             cn_solution=cns)
        raw = rec.pop("_raw", None)
        recb = O.run_genotype(dbb, os.path.join(wd, man["samples"]["s0"]), prof, None, cn_region=cnr,
                              cn_solution=cns)
        recb.pop("_raw", None)
        # average depth as aldy computes it (public accessor)
        from aldy.gene import Gene
        from aldy.profile import Profile
        from aldy.sam import Sample
        from aldy.common import parse_cn_region

        g = Gene(dba, genome=seg["build"])
        p = Profile.load(g, os.path.join(wd, man["ref_bam"]), parse_cn_region(man["neutral"]))
        s = Sample(g, p, os.path.join(wd, man["samples"]["s0"]))
        return {"result": rec["result"] or [], "result_b": recb["result"] or [], "exc": rec["exc"],
                "avg_a": s.coverage.average_coverage()}
    # ---- the lossy run
    loss = seg["loss"]
    params = {}
    sam_path = os.path.join(wd, man["samples"]["s0"])
    effective = True
    records = None
    stream = None
    if loss in ("thin", "contig_absent", "neutral_contig_absent", "locus_skipped", "locus", "locus_decoy_sam", "locus_sliver", "gene_only", "neutral", "neutral_sparse", "empty"):
        sam_path = os.path.join(rd, "s0.sam" if loss == "locus_decoy_sam" else "s0.bam")
        records = _lossy_bam(seg, world, smp, loss, sam_path)
        effective = records[1] < records[0]
    elif loss == "depth_below":
        params["min_avg_coverage"] = seg["avg"] * 1.1 + 0.5
    elif loss == "depth_above":
        params["min_avg_coverage"] = max(0.0, seg["avg"] * 0.9 - 0.5)
    elif loss == "depth_just_below":
        # the configured minimum is a hair above the sample's average depth (as aldy itself measures it)
        params["min_avg_coverage"] = seg["avg"] + 0.003
    elif loss == "depth_just_above":
        params["min_avg_coverage"] = max(0.0, seg["avg"] - 0.003)
    elif loss == "stream_error":
        stream = {"error_at": seg["k"], "error": seg["err"], "error_open": seg["which_open"],
                  "only_file": "s0.bam"}
    elif loss == "seam_drop_locus":
        ga = next(g for g in world["genes"] if g["name"] == a)
        regs = list(ga["regions"]) + list(ga["pregions"] or [])
        stream = {"drop": [[min(x for _, x, y in regs), max(y for _, x, y in regs)]], "only_file": "s0.bam"}
        if ga["pregions"]:
            stream["drop"] = [[min(x for _, x, y in ga["regions"]), max(y for _, x, y in ga["regions"])],
                              [min(x for _, x, y in ga["pregions"]), max(y for _, x, y in ga["pregions"])]]
    if seg.get("min_avg_zero") and loss in ("contig_absent", "locus", "locus_decoy_sam", "empty", "seam_drop_locus"):
        params["min_avg_coverage"] = 0
    if seg.get("warm"):
        # an earlier run in the same process (an API user or `--gene all` does this): the healthy sample
        # through the same route, or through the exome route (copy-number calling off; for a generated
        # gene it ends in a reported error, which must leave nothing behind)
        if seg["warm"] == "exome":
            w = O.run_genotype(dba, os.path.join(wd, man["samples"]["s0"]), "exome", None, cn_region=man["neutral"])
        else:
            w = O.run_genotype(dba, os.path.join(wd, man["samples"]["s0"]), prof, None, cn_region=cnr, cn_solution=cns)
        w.pop("_raw", None)
        streams.reset()
    if stream:
        SIM.cfg["stream"] = stream
    db = (f"{dbb},{dba}" if seg.get("healthy_first") else f"{dba},{dbb}") if seg["multi"] else dba
    if route == "cn_dump":
        # write the archive through the CLI (the run itself is refused, the archive is still made) ...
        prefix = os.path.join(rd, "dbg")
        O.run_main(["genotype", sam_path, "--gene", dba, "--cn", "1,1", "--debug", prefix, "--solver", "cbc"])
        if os.path.exists(prefix + ".tar.gz"):
            sam_path = prefix + ".tar.gz"  # ... and genotype the archive instead of the alignments
            if seg.get("old_archive"):
                _age_archive(sam_path)
    rec = O.run_genotype(db, sam_path, prof, outp, cn_region=cnr, cn_solution=cns, params=params)
    rec.pop("_raw", None)
    if loss == "seam_drop_locus":
        effective = SIM.fired.get("records_dropped", 0) > 0
    if loss == "stream_error":
        effective = SIM.fired.get("stream_error", 0) > 0
    if rec["exc"] and rec["exc"].get("msg"):
        rec["exc"]["msg"] = rec["exc"]["msg"].replace(rd, "<run>").replace(wd, "<world>")
    return {"result": rec["result"], "exc": rec["exc"], "output": rec["output"], "effective": effective,
            "records": records, "fired": dict(SIM.fired), "sample_name": "s0"}

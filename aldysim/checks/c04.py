"""C04 - minor-allele refinement preserves the major call and is optimal.

Simulator-owned dimension: which optimal assignment the solver returns (the minor
stage keeps only the first optimum, so the adversary ranges over the whole optimal
face), integrality jitter, status faults.  Oracle: rules 1-6 of the statement on
every optimum drawn, an independent evaluator of the objective of the reported
assignment, cross-adversary equality of the optimum value, a brute-force reference
over (minor choice x kept x added) on tiny instances, and reproduction of planted
variants on noise-free evidence.
"""

import copy
import itertools
import random
from collections import Counter

from .. import canon
from .. import stagelib as SL
from ..seams import SIM

ID = "C04"
LEVEL = "exploration"
SEGMENT_TIMEOUT = 240
TIERS = {
    "quick": dict(plans=48, budget_s=70, cases=4, advs=4, det_plans=2, shipped=[]),
    "thorough": dict(plans=4000, budget_s=900, cases=6, advs=10, det_plans=8, shipped=["CYP2A6", "CYP2C19"],
                     always_selftest=True),
}
TOL = 1e-4
MAX_ENUM = 120000


def gen_case(rng, tier):
    cfg = TIERS[tier]
    mode = rng.choice(["planted", "planted", "noisy", "noisy", "wild", "edited", "edited", "homozygous",
                       "mismatch", "mismatch", "crowded", "crowded", "repulsion"])
    r = rng.random()
    if mode in ("crowded", "repulsion"):
        r = max(r, 0.36)  # needs a catalogue with multi-allelic sites
    if r < 0.35:
        gene = {"kind": "toy", "genome": rng.choice(["hg19", "hg38"])}
    elif r < 0.92 or not cfg["shipped"]:
        gene = {"kind": "world", "world": SL.gen_stage_world(rng, n_variants=rng.choice([4, 5, 6]), sibling_alts=(mode in ("crowded", "repulsion") or rng.random() < 0.3))}
    else:
        gene = {"kind": "shipped", "name": rng.choice(cfg["shipped"]), "genome": "hg19"}
    return {"gene": gene, "seed": rng.randint(0, 10**9), "mode": mode,
            "depth": rng.choice([6, 8, 10, 20]), "max_copies": rng.choice([1, 2, 2, 3]), "phase": rng.random() < 0.3,
            # how many refinements per candidate are asked for (max_minor_solutions)
            "max_solutions": rng.choice([1, 1, 1, 2, 2])}


def _tame(case):
    # (with phase records the model has thousands of equivalent phase assignments: one refinement only)
    if case["phase"]:
        case["max_solutions"] = 1
    return case


def gen_plan(rng, tier, i, seed):
    cfg = TIERS[tier]
    return {"segments": [{"hashseed": rng.choice([0, 1, 2, 3]),
                          "cases": [_tame(gen_case(rng, tier)) for _ in range(cfg["cases"])],
                          "advs": [rng.randint(0, 10**9) for _ in range(cfg["advs"])],
                          "jitter": rng.randint(0, 10**9), "fault_seed": rng.randint(0, 10**9)}]}


def execute(plan, runner, rundir):
    return {"segments": [runner.segment(s) for s in plan["segments"]]}


def judge(plan, outcome):
    vs = []
    for r in outcome["segments"]:
        vs += r["violations"]
    return vs


def signature(v):
    sig = {"clause": v["clause"]}
    if v["detail"].get("kind"):
        sig["kind"] = v["detail"]["kind"]
    return sig


def shrink(plan):
    seg = plan["segments"][0]
    if len(seg["cases"]) > 1:
        for c in seg["cases"]:
            p = copy.deepcopy(plan)
            p["segments"][0]["cases"] = [c]
            yield p
    if len(seg["advs"]) > 1:
        for a in seg["advs"]:
            p = copy.deepcopy(plan)
            p["segments"][0]["advs"] = [a]
            yield p
    if seg["hashseed"]:
        p = copy.deepcopy(plan)
        p["segments"][0]["hashseed"] = 0
        yield p


def new_stats():
    return {"plans": 0, "cases": 0, "runs": 0, "solutions": 0, "objective_checked": 0, "objective_skipped": 0,
            "brute": 0, "brute_assignments": 0, "fired": {}, "added": 0, "missing": 0, "planted_ok": 0,
            "shapes": set(), "genes": {}, "phase_cases": 0, "adv_differs": 0, "empty": 0, "postprocessed": 0,
            "faults": 0}


def count_evaluations(plan, out):
    return sum(r["stats"]["runs"] for r in out["segments"])


def update_stats(acc, plan, out):
    acc["plans"] += 1
    for r in out["segments"]:
        st = r["stats"]
        for k in ("cases", "runs", "solutions", "objective_checked", "objective_skipped", "brute", "brute_assignments",
                  "added", "missing", "planted_ok", "phase_cases", "adv_differs", "empty", "postprocessed", "faults"):
            acc[k] += st[k]
        for k, v in st["fired"].items():
            acc["fired"][k] = acc["fired"].get(k, 0) + v
        for k, v in st["genes"].items():
            acc["genes"][k] = acc["genes"].get(k, 0) + v
        acc["shapes"].update(st["shapes"])


def sample_view(plan, out):
    return {"case": {k: v for k, v in plan["segments"][0]["cases"][0].items() if k != "gene"},
            "gene_kind": plan["segments"][0]["cases"][0]["gene"]["kind"], "result": out["segments"][0].get("sample")}


def evidence(acc):
    return {
        "coverage": {
            "distinct_nontrivial": len(acc["shapes"]),
            "rule": "one evaluation = one estimate_minor() call under one solver behaviour judged by rules 1-6 and the "
                    "independent objective evaluator; distinct_nontrivial = distinct (gene, structure, major solution, "
                    "evidence table) cases with a reported refinement",
            "plans": acc["plans"], "cases": acc["cases"], "runs": acc["runs"], "refinements_judged": acc["solutions"],
            "objective_recomputed": acc["objective_checked"], "objective_clause_skipped": acc["objective_skipped"],
            "brute_force_references": acc["brute"], "assignments_enumerated": acc["brute_assignments"],
            "fault_kinds_fired": acc["fired"], "genes": acc["genes"],
            "probes": {"refinements_with_additions": acc["added"], "refinements_with_losses": acc["missing"],
                       "planted_variants_reproduced": acc["planted_ok"], "cases_with_phase_records": acc["phase_cases"],
                       "adversary_returned_another_assignment": acc["adv_differs"],
                       "cases_without_refinement": acc["empty"],
                       "refinements_with_homozygous_postprocessing": acc["postprocessed"],
                       "faulted_runs": acc["faults"]},
            "components": {"real": ["aldy.minor (pooling, filters, model builder, read-out, post-processing)",
                                    "aldy.diplotype.estimate_diplotype", "aldy.lpinterface", "CBC"],
                           "stub": ["solver proxy (adversarial optimal vertex, jitter, status faults)"]},
        },
        "assumptions": [
            "the evidence filters of estimate_minor are taken as given (re-applied through aldy's own Coverage.filtered)",
            "the tie-breaker (minor_add * index / 1e6 per addition) is not re-implemented: its bound is the tolerance",
            "the read-phase term is re-implemented (every pattern goes to the called copy it disagrees with least); "
            "the model's down-sampling of phase patterns is not: cases that would be down-sampled are judged by rules "
            "1-6 and cross-adversary equality only",
            "homozygous-variant post-processing adds variants the objective never paid for; the evaluator accepts any "
            "number of paid copies consistent with the report",
        ],
    }


# ---------------------------------------------------------------------------
# child side


_SHARED = {}


class Evaluator:
    def __init__(self, gene, cov, major_sol, mutations, profile):
        from aldy.gene import Mutation

        self.gene, self.cov, self.ms, self.profile = gene, cov, major_sol, profile
        self.cn = major_sol.cn_solution
        self.M = Mutation
        self.muts = sorted(mutations)
        self.sites = sorted({m.pos for m in self.muts})
        self.obs = {}
        for m in self.muts + [Mutation(p, "_") for p in self.sites]:
            # observed copies = share of the site's depth x copies the structure has there (restated)
            k_ = self.cn.position_cn(m.pos)
            self.obs[m] = (cov[m] * k_ / max(1, cov.total(m))) if k_ else 0.0
        self.major_counts = Counter()
        for a, n in major_sol.solution.items():
            self.major_counts[a.major] += n

    def definition(self, major, minor):
        return set(self.gene.alleles[major].func_muts) | set(self.gene.alleles[major].minors[minor].neutral_muts)

    def addable(self, major, minor):
        d = self.definition(major, minor)
        return [m for m in self.muts if self.gene.has_coverage(major, m.pos) and m not in d]

    def n_vnew(self):
        n = 0
        for major, cnt in getattr(self, "pool_counts", self.major_counts).items():
            for minor in self.gene.alleles[major].minors:
                n += cnt * len(self.addable(major, minor))
        return n

    def carried(self, e):
        major, minor, keep, add = e
        return set(keep) | set(add)

    def rules(self, assign):
        """Statement rules 1-6 on an assignment [(major, minor, keep, add)]; returns a clause or None."""
        if Counter(e[0] for e in assign) != self.major_counts:
            return "called copies do not match the major solution one to one"
        for major, minor, keep, add in assign:
            if minor not in self.gene.alleles[major].minors:
                return "minor allele is not a catalogued minor allele of its major allele"
            d = self.definition(major, minor)
            if not set(keep) <= d:
                return "kept variant is not part of the allele definition"
            for m in d - set(keep):
                if self.gene.is_functional(m):
                    return "a core variant of a called allele was dropped"
            for m in add:
                if m in d:
                    return "added variant is already part of the allele definition"
                if not self.gene.has_coverage(major, m.pos):
                    return "variant added to an allele that has no gene copy at that position"
                if self.cov[m] <= 0:
                    return "variant added without supporting filtered reads"
            for m in keep:
                if self.cov[m] <= 0:
                    return "allele reported to carry a variant without supporting reads"
            per = Counter(m.pos for m in self.carried((major, minor, keep, add)))
            if any(v > 1 for v in per.values()):
                # mechanism-based label for the recorded finding: the only doubly occupied positions hold one
                # insertion and one substitution on the insertion's anchor base, the substitution being on every
                # copy of the sample (read-out post-processing adds such a variant to all alleles)
                self.last_kind = None
                dbl = [p_ for p_, v_ in per.items() if v_ > 1]
                car = self.carried((major, minor, keep, add))
                maxcn = self.cn.max_cn()
                if all(sorted(m.op[:3] == "ins" for m in car if m.pos == p_) == [False, True]
                       and all(abs(self.obs[m] - maxcn) <= 1e-5 and m in add
                               for m in car if m.pos == p_ and m.op[:3] != "ins") for p_ in dbl):
                    self.last_kind = "substitution-on-insertion-anchor-added-by-homozygous-read-out"
                return "an allele carries two variants at one position"
        carriers = Counter()
        for e in assign:
            for m in self.carried(e):
                carriers[m] += 1
        for m in self.muts:
            if self.cov[m] > 0 and self.cn.position_cn(m.pos) > 0 and carriers[m] == 0:
                return "a considered variant with supporting reads is carried by no allele"
        return None

    def phase_modes(self):
        """Read-phase patterns the model uses: per fragment the shown alleles at considered positions (at least
        two of them), counted by pattern.  None when the model would down-sample them (not re-implemented)."""
        if getattr(self, "_modes", "unset") != "unset":
            return self._modes
        self._modes = {}
        ph = getattr(getattr(self.cov, "sam", None), "phases", None)
        if self.profile.phase and ph:
            mut_pos = {m.pos for m in self.muts}
            modes = Counter()
            for rv in ph.values():
                c = tuple(sorted((k, v) for k, v in rv.items() if k in mut_pos))
                if len(c) > 1:
                    modes[c] += 1
            pool = sum(len(self.gene.alleles[ma].minors) * n for ma, n in getattr(self, "pool_counts", self.major_counts).items())
            self._modes = None if len(modes) * max(1, pool) > self.profile.minor_phase_vars else dict(modes)
        return self._modes

    def phase_cost(self, assign):
        """Read-phase disagreement of an assignment: every pattern goes to the called allele copy it disagrees
        with least; a considered variant the pattern shows and the copy lacks, or the copy carries and the pattern
        does not show, is one disagreement."""
        modes = self.phase_modes()
        if not modes:
            return 0.0
        total = 0.0
        for c, cnt in modes.items():
            r = dict(c)
            best = None
            for e in assign:
                rel = [m for m in self.muts if m.pos in r and self.gene.has_coverage(e[0], m.pos)]
                if len(rel) <= 1:
                    continue
                car = self.carried(e)
                cost = sum(1 for m in rel if (m.op == r[m.pos]) != (m in car))
                best = cost if best is None else min(best, cost)
            if best is None:
                continue
            total += cnt * best
        return self.profile.minor_phase * total

    def objective(self, assign):
        """Model objective of an assignment, without tie-breaker (read-phase term included)."""
        carriers = Counter()
        addc = Counter()
        for e in assign:
            for m in self.carried(e):
                carriers[m] += 1
            for m in e[3]:
                addc[m] += 1
        err = 0.0
        for m in self.muts:
            err += abs(self.obs[m] - carriers[m])
        for p in self.sites:
            called = 0
            for major, minor, keep, add in assign:
                if not self.gene.has_coverage(major, p):
                    continue
                d = self.definition(major, minor)
                present = [m for m in d if m.pos == p and not m.op.startswith("ins")]
                if present:
                    called += 1 - (1 if present[0] in keep else 0)
                else:
                    called += 1 - sum(1 for m in add if m.pos == p and not m.op.startswith("ins"))
            err += abs(self.obs[self.M(p, "_")] - called)
        pen = 0.0
        for major, minor, keep, add in assign:
            pen += self.profile.minor_miss * (len(self.definition(major, minor)) - len(keep))
        pen += self.profile.minor_add * sum(addc.values())
        pen += self.profile.minor_add / 2 * sum(1 for m, n in addc.items() if n > 0 and self.gene.is_functional(m))
        return err + pen + self.phase_cost(assign)

    def admissible_extra(self, assign):
        """Model constraints beyond rules 1-6 (needed for the brute-force reference)."""
        carriers = Counter()
        for e in assign:
            for m in self.carried(e):
                carriers[m] += 1
        for m in self.muts:
            if self.cn.position_cn(m.pos) == 0 or self.cov[m] == 0:
                if carriers[m]:
                    return False
            elif carriers[m] > self.cov[m]:
                return False
        for major, minor, keep, add in assign:
            for m in keep:
                if not self.gene.has_coverage(major, m.pos):
                    return False
        for p in self.sites:
            expr, max_mut = 0, 0
            for major, minor, keep, add in assign:
                d = self.definition(major, minor)
                slots = [m for m in d if m.pos == p] + [m for m in self.addable(major, minor) if m.pos == p]
                max_mut = max(max_mut, len(slots))
                expr += len(slots) - sum(1 for m in slots if m in keep or m in add)
            # unselected alleles contribute 0; max_mut over all candidate alleles is >= this one
            if self.cn.position_cn(p) == 0:
                if expr > 0:
                    return False
        return True

    def slot_excess(self, assign):
        """Sites at which aldy's rule 6 (minor.py "6) Do the same for non-mutations") excludes this
        assignment: the model counts, for every called allele, one reference slot per considered variant of
        the site that the allele does not carry (two slots for an allele that carries neither of two
        alternatives) and bounds the sum by max(copies, reference reads, variants at the site)."""
        out = []
        for p in self.sites:
            here = [m for m in self.muts if m.pos == p]
            if len(here) < 2:
                continue
            slots, maxn = 0, 0
            for e in assign:
                own = [m for m in self.definition(e[0], e[1]) if m.pos == p]
                n = len(here) if self.gene.has_coverage(e[0], p) else len(own)
                maxn = max(maxn, n)
                slots += n - sum(1 for m in self.carried(e) if m.pos == p)
            if slots > max(self.cn.position_cn(p), self.cov[self.M(p, "_")], maxn) + 1e-9:
                out.append(p)
        return out

    def brute(self, limit=MAX_ENUM, skip=None):
        slots = []
        for major, cnt in sorted(self.major_counts.items()):
            opts = []
            for minor in sorted(self.gene.alleles[major].minors):
                d = sorted(self.definition(major, minor))
                must = [m for m in d if self.gene.is_functional(m)]
                free = [m for m in d if not self.gene.is_functional(m)]
                addable = [m for m in self.addable(major, minor) if self.cov[m] > 0 and self.cn.position_cn(m.pos) > 0]
                for kf in itertools.chain.from_iterable(itertools.combinations(free, r) for r in range(len(free) + 1)):
                    keep = tuple(must) + kf
                    if any(self.cov[m] <= 0 or not self.gene.has_coverage(major, m.pos) for m in keep):
                        continue
                    for ad in itertools.chain.from_iterable(itertools.combinations(addable, r) for r in range(min(3, len(addable)) + 1)):
                        per = Counter(m.pos for m in keep + ad)
                        if any(v > 1 for v in per.values()):
                            continue
                        opts.append((major, minor, keep, ad))
            slots.append((opts, cnt))
        total = 1
        for opts, cnt in slots:
            n = len(list(itertools.combinations_with_replacement(range(len(opts)), cnt))) if len(opts) < 400 else 10**9
            total *= max(1, n)
            if total > limit:
                return None, 0
        best, nenum = None, 0
        per_major = [list(itertools.combinations_with_replacement(opts, cnt)) for opts, cnt in slots]
        for parts in itertools.product(*per_major):
            assign = [e for part in parts for e in part]
            nenum += 1
            if self.rules(assign) or not self.admissible_extra(assign):
                continue
            if skip is not None and skip(assign):
                continue
            o = self.objective(assign)
            if best is None or o < best[0]:
                best = (o, assign)
        return best, nenum


def _assignment(ev, sol):
    out = []
    for a in sol.solution:
        d = ev.definition(a.major, a.minor) if a.minor in ev.gene.alleles[a.major].minors else set()
        keep = tuple(sorted(d - set(a.missing)))
        out.append((a.major, a.minor, keep, tuple(sorted(a.added))))
    return out


def run_case(case, seg, viol, stats, sample):
    import aldy.minor as MI
    from aldy.coverage import Coverage
    from aldy.profile import Profile
    from aldy.solutions import CNSolution, MajorSolution, SolvedAllele

    rng = random.Random(case["seed"])
    # aldy works on a Gene object that earlier cases of this segment already used (an API user keeps
    # it); the oracle works on a pristine load
    gkey = canon.digest(case["gene"])
    if gkey not in _SHARED:
        _SHARED[gkey] = SL.load_gene(case["gene"])
    gene = _SHARED[gkey]
    gene_ref = SL.load_gene(case["gene"])
    gname = case["gene"].get("name", case["gene"]["kind"])
    cn = SL.random_cn(rng, gene, case["max_copies"])
    dele = gene.deletion_allele()
    planted = SL.random_planted(rng, gene, cn)
    if planted is None:
        return
    stats["genes"][gname] = stats["genes"].get(gname, 0) + 1
    mode = case["mode"]
    if mode == "planted":
        table = SL.planted_table(gene, planted, case["depth"])
    elif mode in ("edited", "homozygous"):
        # haplotypes that are not in the catalogue: a silent variant lost, gained, or gained by every copy
        from aldy.gene import Mutation

        silent = sorted(Mutation(*m) for m in gene.mutations if not gene.is_functional(m))
        truth = []
        hom = rng.choice(silent) if (silent and mode == "homozygous") else None
        for ma, mi in planted:
            have = SL.allele_muts(gene, ma, mi)
            add, miss = [], []
            if hom is not None:
                if hom not in have and gene.has_coverage(ma, hom.pos) and not any(x.pos == hom.pos for x in have):
                    add.append(hom)
            else:
                neutral = sorted(gene.alleles[ma].minors[mi].neutral_muts)
                r2 = rng.random()
                if neutral and r2 < 0.4:
                    miss.append(rng.choice(neutral))
                elif silent and r2 < 0.8:
                    m = rng.choice(silent)
                    if m not in have and gene.has_coverage(ma, m.pos) and not any(x.pos == m.pos for x in have):
                        add.append(m)
            truth.append((ma, mi, tuple(add), tuple(miss)))
        table = SL.planted_table(gene, truth, case["depth"])
    elif mode == "noisy":
        table = SL.planted_table(gene, planted, case["depth"], rng, noise=rng.choice([0.1, 0.25, 0.4]),
                                 extra_noise=rng.choice([0, 1, 2]))
    elif mode == "crowded":
        # a single called copy already carries one alternative allele of a multi-allelic site and reads show
        # a second catalogued alternative there: no other allele can take it
        by_pos = {}
        for (pos, op) in gene.mutations:
            if ">" in op:
                by_pos.setdefault(pos, []).append(op)
        pick = None
        for a_ in gene.alleles.values():
            if a_.cn_config != "1":
                continue
            # the second alternative must be a *considered* variant: it belongs to a sibling sub-allele
            pool = {}
            for mi_ in sorted(a_.minors):
                for m in sorted(SL.allele_muts(gene, a_.name, mi_)):
                    if ">" in m.op:
                        pool.setdefault(m.pos, {}).setdefault(m.op, mi_)
            for pos_, ops_ in sorted(pool.items()):
                if len(ops_) >= 2:
                    (op1, mi1), (op2, _) = sorted(ops_.items())[:2]
                    pick = (a_.name, mi1, gene_ref.mutations and __import__("aldy.gene", fromlist=["Mutation"]).Mutation(pos_, op1))
                    by_pos[pos_] = [op1, op2]
                    break
            if pick:
                break
        if pick and rng.random() < 0.8:
            del cn[:]
            cn.append("1")
            del planted[:]
            planted.append((pick[0], pick[1]))
            table = SL.planted_table(gene, planted, case["depth"])
            other = next(op for op in by_pos[pick[2].pos] if op != pick[2].op)
            table.setdefault(pick[2].pos, {})[other] = rng.randint(3, case["depth"])
        else:
            table = SL.planted_table(gene, planted, case["depth"])
            have = {}
            for ma, mi in planted:
                for m in SL.allele_muts(gene, ma, mi):
                    have[m.pos] = m.op
            for (pos, op) in sorted(gene.mutations):
                if pos in have and have[pos] != op and ">" in op and ">" in have[pos]:
                    table.setdefault(pos, {})[op] = rng.randint(3, case["depth"])
                    break
    elif mode == "mismatch":
        # the evidence comes from other haplotypes than the major solution claims ("for any evidence and
        # any major solution"): core variants of a called allele may have little or no support
        other = SL.random_planted(rng, gene, cn) or planted
        table = SL.planted_table(gene, other, case["depth"], rng, noise=0.2, extra_noise=rng.choice([0, 1, 3]))
        for ma, mi in planted:
            for m in gene.alleles[ma].func_muts:
                if rng.random() < 0.5:
                    table.setdefault(m.pos, {})[m.op] = max(table.get(m.pos, {}).get(m.op, 0), rng.randint(2, case["depth"]))
    else:
        table = SL.planted_table(gene, planted, case["depth"], rng, noise=0.5, extra_noise=rng.randint(2, 5))
    if rng.random() < 0.25 and mode not in ("planted", "homozygous"):
        # a considered variant nobody planted, seen on exactly as many reads as the absolute minimum asks for
        # (profile.min_coverage) at a site shallow enough for that to pass the relative filter as well
        have_pos = set()
        for ma, mi in planted:
            have_pos |= {m.pos for m in SL.allele_muts(gene, ma, mi)}
        cands_ = [m for m in sorted(gene.mutations) if m[0] not in have_pos and ">" in m[1] and len(m[1]) == 3]
        if cands_:
            pos_, op_ = rng.choice(cands_)
            k_ = max(1, len(cn))
            table[pos_] = {op_: 2, "_": {1: 3, 2: 7, 3: 11}.get(k_, 4 * k_)}
            stats["min_support_cases"] = stats.get("min_support_cases", 0) + 1
    phases = None
    if case["phase"]:
        # per-fragment phase records consistent with the planted haplotypes
        phases = {}
        sites = sorted({p for p, _ in gene.mutations})
        for i in range(rng.randint(10, 40)):
            ma, mi = rng.choice(planted)
            muts = {m.pos: m.op for m in SL.allele_muts(gene, ma, mi)}
            k = rng.sample(sites, min(len(sites), rng.randint(2, 3)))
            phases[f"f{i}"] = {p: muts.get(p, "_") for p in k if gene.has_coverage(ma, p)}
            if rng.random() < 0.25 and phases[f"f{i}"]:
                # a base at a considered site that is none of its catalogued alleles (it speaks against every
                # copy that carries a catalogued variant there)
                p_ = rng.choice(sorted(phases[f"f{i}"]))
                ref_ = gene[p_]
                known_ = {o for (q_, o) in gene.mutations if q_ == p_}
                alts_ = [f"{ref_}>{b}" for b in "ACGT" if b != ref_ and f"{ref_}>{b}" not in known_]
                if ref_ in "ACGT" and alts_:
                    phases[f"f{i}"][p_] = rng.choice(alts_)
        stats["phase_cases"] += 1
    profile = Profile("test", phase=bool(case["phase"]))
    # a companion candidate with another gene structure in the same call (the pipeline does this
    # whenever two structures survive); the refinement of *our* candidate is what is judged
    companion, companion_first = None, rng.random() < 0.5
    if rng.random() < 0.3 and not case["phase"]:
        ccn = list(cn) + ["1"]
        cpl = list(planted) + [rng.choice([(a.name, sorted(a.minors)[0]) for a in gene.alleles.values() if a.cn_config == "1"])]
        companion = (ccn, cpl)
    if mode == "repulsion":
        # three copies of ONE sub-allele; a companion candidate brings two catalogued alternatives of one site
        # into the pool, the reads show each of them on one copy's worth of reads and the reference on the
        # third: two copies of the same sub-allele have to gain different variants
        by_site = {}
        for a_ in gene.alleles.values():
            if a_.cn_config != "1":
                continue
            for mi_ in sorted(a_.minors):
                for m in SL.allele_muts(gene, a_.name, mi_):
                    if ">" in m.op and len(m.op) == 3:
                        by_site.setdefault(m.pos, {}).setdefault(m.op, (a_.name, mi_))
        pick = None
        for pos_, ops_ in sorted(by_site.items()):
            if len(ops_) < 2:
                continue
            (op1, src1), (op2, src2) = sorted(ops_.items())[:2]
            for a_ in sorted(gene.alleles.values(), key=lambda x: x.name):
                if a_.cn_config != "1" or a_.name in (src1[0], src2[0]) or not gene.has_coverage(a_.name, pos_):
                    continue
                mi_ = sorted(a_.minors)[0]
                if all(m.pos != pos_ for m in SL.allele_muts(gene, a_.name, mi_)):
                    pick = (a_.name, mi_, pos_, op1, op2, src1, src2)
                    break
            if pick:
                break
        if pick:
            an_, mi_, pos_, op1, op2, src1, src2 = pick
            del cn[:]
            cn.extend(["1", "1", "1"])
            del planted[:]
            planted.extend([(an_, mi_)] * 3)
            D = case["depth"]
            table = SL.planted_table(gene, planted, D)
            table[pos_] = {"_": D, op1: D, op2: D}
            companion = (["1", "1"], [src1, src2])
            phases, profile = None, Profile("test", phase=False)
            case = dict(case, phase=False)
            stats["repulsion_cases"] = stats.get("repulsion_cases", 0) + 1
    stats["cases"] += 1
    detail0 = {"gene": gname, "structure": cn, "planted": planted, "mode": mode, "phase": case["phase"],
               "companion": companion, "companion_first": companion_first}

    indels = SL.realigned_table(gene, table, rng.choice([2, 3])) if rng.random() < 0.35 else None
    if indels:
        stats["realigned_indel_cases"] = stats.get("realigned_indel_cases", 0) + 1
        detail0["realigned_indels"] = [[p_, o_, v_] for (p_, o_), v_ in sorted(indels.items())][:4]

    def call(history=False):
        cov = SL.make_coverage(gene, table, profile, phases, indels=indels)
        if history:
            # the same evidence object was refined before, for a candidate that considers fewer sites
            # (an API user looping over major solutions does that)
            try:
                k_ = max(1, len(cn))
                small = MajorSolution(0, Counter({SolvedAllele(gene, "1"): k_}), CNSolution(gene, 0, ["1"] * k_), [])
                MI.estimate_minor(gene, cov, [small], "cbc")
            except Exception:
                pass
        cns = CNSolution(gene, 0, cn)
        major = MajorSolution(0, Counter(SolvedAllele(gene, ma) for ma, mi in planted), cns, [])
        majors = [major]
        if companion is not None:
            ccn, cpl = companion
            comp = MajorSolution(0, Counter(SolvedAllele(gene, ma) for ma, mi in cpl), CNSolution(gene, 0, ccn), [])
            majors = [comp, major] if companion_first else [major, comp]
        allsols = MI.estimate_minor(gene, cov, majors, "cbc", max_solutions=case.get("max_solutions", 1))
        sols = sorted((x for x in allsols if x.major_solution is major), key=lambda x: x.score)  # best first
        # the evidence the model saw: aldy's own filters, re-applied on a pristine catalogue
        # (C15 owns the filters); considered variants are pooled over the candidates of the call
        mutations = set()
        for mj in majors:
            for sa in mj.solution:
                mutations |= set(gene_ref.alleles[sa.major].func_muts)
                for minor in gene_ref.alleles[sa.major].minors.values():
                    mutations |= set(minor.neutral_muts)
        mutations |= gene_ref.random_mutations

        def flt(c, mut):
            r = gene.region_at(mut.pos)
            if mut.op != "_" and not (mut in mutations or (r and r[1][0] == "e") or (r and r[1] in ["utr3", "utr5", "up"])):
                return False
            cond = c.basic_filter(mut, cn=profile.cn_max)
            if mut.op != "_":
                cond = cond and c.basic_filter(mut, cn=cns.position_cn(mut.pos) + 0.5)
            return cond

        fcov = cov.filtered(Coverage.quality_filter).filtered(flt)
        ev_ = Evaluator(gene_ref, fcov, major, mutations, profile)
        # the pool the tie-breaker runs over: the alleles of every candidate of the call
        ev_.pool_counts = Counter()
        for mj in majors:
            c_ = Counter()
            for a, n in mj.solution.items():
                c_[a.major] += n
            for k_, v_ in c_.items():
                ev_.pool_counts[k_] = max(ev_.pool_counts[k_], v_)
        return sols, ev_

    def judge_solution(sols, ev, mode_name):
        if len(sols) > case.get("max_solutions", 1):
            viol.append({"clause": "more refinements than requested", "detail": dict(detail0, solver=mode_name)})
        res = []
        # (with several refinements requested every one is judged by the rules and its own score; the best of
        # them is the one the optimality clauses speak about)
        best_first = sorted(sols, key=lambda x: x.score)
        for si_, s in enumerate(best_first):
            stats["solutions"] += 1
            assign = _assignment(ev, s)
            d = dict(detail0, solver=mode_name, score=s.score,
                     refinement=[[a.major, a.minor, [list(m) for m in a.added], [list(m) for m in a.missing]] for a in s.solution])
            ev.last_kind = None
            bad = ev.rules(assign)
            if bad:
                viol.append({"clause": bad, "detail": dict(d, kind=ev.last_kind) if ev.last_kind else d})
                continue
            if any(a.added for a in s.solution):
                stats["added"] += 1
            if any(a.missing for a in s.solution):
                stats["missing"] += 1
            if si_ == 0:
                res.append((assign, s.score))
            if case["phase"] and ev.phase_modes() is None:
                stats["objective_skipped"] += 1
                continue
            if case["phase"]:
                stats["objective_with_phase"] = stats.get("objective_with_phase", 0) + 1
            # additions that the homozygous post-processing may have appended without the model paying
            maxcn = ev.cn.max_cn()
            U = [m for m in ev.muts if abs(ev.obs[m] - maxcn) <= 1e-5 and any(m in e[3] for e in assign)]
            tb = ev.profile.minor_add * ev.n_vnew() / 1e6 * max(1, sum(len(e[3]) for e in assign)) + TOL
            if not U:
                want = [ev.objective(assign)]
            elif len(U) <= 3:
                stats["postprocessed"] += 1
                want = []
                # which of the reported carriers of such a variant the model itself had chosen (any subset: with
                # read-phase records it matters which copy, not only how many)
                carriers_ = [[i_ for i_, e in enumerate(assign) if m in e[3]] for m in U]
                subsets_ = [[set(c_) for r_ in range(len(cs) + 1) for c_ in itertools.combinations(cs, r_)] for cs in carriers_]
                for choice in itertools.product(*subsets_):
                    keepers = dict(zip(U, choice))
                    reduced = [(ma_, mi_, kp_, tuple(m for m in ad_ if m not in keepers or i_ in keepers[m]))
                               for i_, (ma_, mi_, kp_, ad_) in enumerate(assign)]
                    want.append(ev.objective(reduced))
            else:
                stats["objective_skipped"] += 1
                continue
            stats["objective_checked"] += 1
            if not any(abs(w - s.score) <= tb for w in want):
                viol.append({"clause": "reported score differs from the model objective of the reported assignment",
                             "detail": dict(d, recomputed=sorted(round(w, 5) for w in want)[:6], tolerance=tb)})
        return res

    SIM.reset({"max_solves": 4000, "max_wall": 90.0, "monitor": True})
    sols, ev = call()
    stats["runs"] += 1
    nsolves = SIM.solve_index
    plain = judge_solution(sols, ev, "plain")
    if sols is not None and (case["phase"] or rng.random() < 0.3):
        SIM.reset({"max_solves": 4000, "max_wall": 90.0, "monitor": False})
        try:
            sols_h, _ = call(history=True)
        except Exception as ex:
            sols_h = None
            viol.append({"clause": "result depends on an earlier call that used the same evidence object",
                         "detail": dict(detail0, error=repr(ex)[:200])})
        stats["runs"] += 1
        if sols_h is not None:
            a_ = [[round(x.score, 6), sorted([y.major, y.minor, sorted(map(list, y.added)), sorted(map(list, y.missing))]
                                             for y in x.solution)] for x in sols]
            b_ = [[round(x.score, 6), sorted([y.major, y.minor, sorted(map(list, y.added)), sorted(map(list, y.missing))]
                                             for y in x.solution)] for x in sols_h]
            if not SIM.ever_exceeded and (len(a_) != len(b_) or any(abs(p_[0] - q_[0]) > 1e-4 for p_, q_ in zip(a_, b_))):
                viol.append({"clause": "result depends on an earlier call that used the same evidence object",
                             "detail": dict(detail0, fresh=a_[:2], after_history=b_[:2])})
            stats["history_cases"] = stats.get("history_cases", 0) + 1
    if not sols:
        stats["empty"] += 1
    else:
        stats["shapes"].add(canon.digest([gname if gname != "world" else canon.digest(case["gene"])[:8], cn, planted, table])[:12])
    if not sample and sols:
        s = sols[0]
        sample.append({"structure": cn, "planted": planted, "score": s.score,
                       "refinement": [[a.major, a.minor, len(a.added), len(a.missing)] for a in s.solution]})
    tb0 = ev.profile.minor_add * ev.n_vnew() / 1e6 * 6 + TOL
    # sites at which the model's reference-count bound (minor.py "6) Do the same for non-mutations") bites:
    # no reference reads and at least two considered alternative alleles (see known findings)
    # (the finding is identified by its mechanism where the clauses are judged: see Evaluator.slot_excess)
    # brute-force reference (tiny instances, phase off)
    if not case["phase"] or ev.phase_modes() is not None:
        best, nenum = ev.brute(limit=MAX_ENUM if not case["phase"] else 20000)
        if nenum:
            stats["brute"] += 1
            stats["brute_assignments"] += nenum
            if best is None and sols:
                # the reference found nothing admissible: only flag if the report violates the rules (done above)
                pass
            elif best is not None and not sols:
                ok, _ = ev.brute(skip=ev.slot_excess)
                d1 = detail0
                if ok is None:
                    # every admissible assignment is excluded by the model's reference-slot bound
                    d1 = dict(detail0, kind="nonmutation-slot-bound", sites=ev.slot_excess(best[1])[:3])
                viol.append({"clause": "an admissible assignment exists but no refinement is reported",
                             "detail": dict(d1, optimum=best[0])})
            elif best is not None and plain:
                # the reported score may include unpaid post-processing: compare through the evaluator's own value
                mine = min(_candidates_scores(ev, plain[0][0]))
                if mine > best[0] + tb0:
                    ok, _ = ev.brute(skip=ev.slot_excess)
                    if ev.slot_excess(best[1]) and (ok is None or mine <= ok[0] + tb0):
                        # what is reported is optimal among the assignments the reference-slot bound lets through
                        detail0 = dict(detail0, kind="nonmutation-slot-bound", sites=ev.slot_excess(best[1])[:3])
                    viol.append({"clause": "an admissible assignment scores lower than the reported refinement",
                                 "detail": dict(detail0, reported=mine, optimum=best[0],
                                                witness=[[e[0], e[1], [list(m) for m in e[2]], [list(m) for m in e[3]]]
                                                         for e in best[1]])})
    # planted, noise-free: variants reproduced with multiplicity, nothing added or lost
    if mode == "planted" and sols and not case["phase"]:
        s = sols[0]
        got = Counter()
        for a in s.solution:
            for m in SL.allele_muts(gene, a.major, a.minor, a.added, a.missing):
                got[m] += 1
        want = Counter()
        for ma, mi in planted:
            for m in SL.allele_muts(gene, ma, mi):
                want[m] += 1
        if got != want or s.score > tb0:
            d_ = dict(detail0, score=s.score, extra=[list(m) for m in (got - want)][:3],
                      lost=[list(m) for m in (want - got)][:3])
            # mechanism label of the recorded anchor-substitution finding: a planted sub-allele is defined by an
            # insertion and a substitution at one database position (the model cannot select it), and what is
            # reported carries exactly the planted variants (the substitution moved to another allele)
            anchored = any(any(m.op.startswith("ins") and any(x.pos == m.pos and not x.op.startswith("ins") for x in ms_)
                               for m in ms_) for ms_ in (SL.allele_muts(gene, ma, mi) for ma, mi in planted))
            if anchored and got == want:
                d_["kind"] = "planted-sub-allele-with-substitution-on-insertion-anchor"
            viol.append({"clause": "planted variants are not reproduced (with multiplicity, no additions or losses) "
                                   "on noise-free evidence", "detail": d_})
        else:
            stats["planted_ok"] += 1
    # adversarial optimum choice
    for a in seg["advs"]:
        SIM.reset({"max_solves": 4000, "max_wall": 90.0, "adversary": a, "monitor": True})
        sols2, ev2 = call()
        stats["runs"] += 1
        adv = judge_solution(sols2, ev2, f"adversary:{a}")
        for k, v in SIM.fired.items():
            stats["fired"][k] = stats["fired"].get(k, 0) + v
        if bool(sols) != bool(sols2):
            viol.append({"clause": "existence of a refinement depends on which optimum the solver returns",
                         "detail": dict(detail0, seed=a)})
        elif sols and abs(sols[0].score - sols2[0].score) > tb0:
            viol.append({"clause": "optimum value of the refinement depends on which optimum the solver returns",
                         "detail": dict(detail0, plain=sols[0].score, adversary=sols2[0].score, seed=a)})
        elif sols and plain and adv and sorted(map(canon.jdump, plain[0][0])) != sorted(map(canon.jdump, adv[0][0])):
            stats["adv_differs"] += 1
    SIM.reset({"max_solves": 4000, "max_wall": 90.0, "jitter": seg["jitter"], "monitor": True})
    sols3, ev3 = call()
    stats["runs"] += 1
    j = judge_solution(sols3, ev3, "jitter")
    if plain and j and sorted(map(canon.jdump, plain[0][0])) != sorted(map(canon.jdump, j[0][0])):
        viol.append({"clause": "integrality jitter changes the reported refinement", "detail": detail0})
    frng = random.Random(seg["fault_seed"] ^ case["seed"])
    if nsolves:
        k = frng.randrange(nsolves)
        kind = frng.choice(["infeasible", "abnormal", "not_solved", "incumbent", "verify"])
        SIM.reset({"max_solves": 4000, "max_wall": 90.0, "faults": [{"at": k, "kind": kind, "seed": k}], "monitor": False})
        sols4, ev4 = call()
        stats["runs"] += 1
        stats["faults"] += 1
        judge_solution(sols4, ev4, f"fault:{kind}@{k}")
        for kk, v in SIM.fired.items():
            stats["fired"][kk] = stats["fired"].get(kk, 0) + v
        if SIM.fired and sols4 and k == 0 and companion is None:
            viol.append({"clause": "a refinement was reported from a solve that did not end optimal and verified",
                         "detail": dict(detail0, fault=[k, kind])})


def _objective_paid(ev, assign, paid):
    """Objective when only `paid[m]` of the reported additions of m were in the model's solution."""
    reduced = []
    left = Counter(paid)
    tot = Counter()
    for e in assign:
        for m in e[3]:
            tot[m] += 1
    drop = Counter({m: tot[m] - paid[m] for m in paid})
    for major, minor, keep, add in assign:
        nadd = []
        for m in add:
            if m in drop and drop[m] > 0:
                drop[m] -= 1
                continue
            nadd.append(m)
        reduced.append((major, minor, keep, tuple(nadd)))
    return ev.objective(reduced)


def _candidates_scores(ev, assign):
    maxcn = ev.cn.max_cn()
    U = [m for m in ev.muts if abs(ev.obs[m] - maxcn) <= 1e-5 and any(m in e[3] for e in assign)]
    if not U or len(U) > 3:
        return [ev.objective(assign)]
    out = []
    carriers_ = [[i_ for i_, e in enumerate(assign) if m in e[3]] for m in U]
    subsets_ = [[set(c_) for r_ in range(len(cs) + 1) for c_ in itertools.combinations(cs, r_)] for cs in carriers_]
    for choice in itertools.product(*subsets_):
        keepers = dict(zip(U, choice))
        out.append(ev.objective([(ma_, mi_, kp_, tuple(m for m in ad_ if m not in keepers or i_ in keepers[m]))
                                 for i_, (ma_, mi_, kp_, ad_) in enumerate(assign)]))
    return out


def run_segment(seg):
    viol, sample = [], []
    stats = {"cases": 0, "runs": 0, "solutions": 0, "objective_checked": 0, "objective_skipped": 0, "brute": 0,
             "brute_assignments": 0, "fired": {}, "added": 0, "missing": 0, "planted_ok": 0, "shapes": set(),
             "genes": {}, "phase_cases": 0, "adv_differs": 0, "empty": 0, "postprocessed": 0, "faults": 0}
    for case in seg["cases"]:
        run_case(case, seg, viol, stats, sample)
    stats["shapes"] = sorted(stats["shapes"])
    return {"violations": viol[:10], "stats": stats, "sample": sample[:1]}

import importlib

_MODS = {
    "C01": "c01", "C02": "c02", "C03": "c03", "C04": "c04", "C05": "c05",
    "C06": "c06", "C07": "c07", "C10": "c10", "C14": "c14", "C17": "c17",
    "C18": "c18", "C19": "c19",
}


def get_check(cid):
    return importlib.import_module(f"aldysim.checks.{_MODS[cid]}")

"""C06 - alignment evidence is a faithful pileup of the eligible reads.

Simulator-owned dimension: how the same multiset of alignment records is delivered -
container (indexed BAM / SAM text), index visible or hidden (indexed fetch vs full
scan), order (sorted, ties permuted, seeded permutation at the stream seam), how a
match run is split into M / = / X operations, which ineligible records are
interleaved - and a read error at the k-th record.  Oracle: an independent CIGAR
interpreter over the same records (reference model), equality across deliveries.
"""

import copy
import os
import random
from collections import Counter, defaultdict

from .. import canon
from .. import workload as WL
from .. import world as W
from ..seams import SIM

ID = "C06"
LEVEL = "exploration"
SEGMENT_TIMEOUT = 180
TIERS = {
    "quick": dict(plans=64, budget_s=70, det_plans=2, nreads=(120, 260)),
    "thorough": dict(plans=8000, budget_s=900, det_plans=8, nreads=(100, 500), always_selftest=True),
}
DELIVERIES = ["bam_sorted", "bam_ties", "sam_text", "seam_shuffle", "seam_noindex", "resplit", "ineligible"]
QUALS = [0, 1, 2, 5, 9, 10, 11, 19, 20, 28, 29, 30, 38, 39, 40, 41]
MAPQS = [0, 1, 9, 10, 29, 30, 39, 60]


def bin_q(q):
    if q < 2:
        return int(q)
    if q < 10:
        return 6
    if q < 20:
        return 15
    if q < 29:
        return 25
    if q < 39:
        return 35
    return 40


# ---------------------------------------------------------------------------
# read generation (driver side, plain data)


def gen_reads(rng, world, n):
    """Random alignments: dicts with start, cigar (list of [op, len]), seq, quals, mapq, flag, name."""
    g = world["genes"][0]
    contig = world["contig"]["seq"]
    regs = list(g["regions"]) + list(g["pregions"] or [])
    lo = min(a for _, a, b in regs)
    hi = max(b for _, a, b in regs)
    variants = list(g["variants"].values())
    reads = []
    for i in range(n):
        L = rng.randint(30, 160)
        r = rng.random()
        if r < 0.06:
            start = rng.choice([lo - L - rng.randint(1, 40), hi + rng.randint(1, 40)])  # outside
        elif r < 0.14:
            start = rng.choice([lo - rng.randint(0, L), hi - rng.randint(0, L)])  # straddling a border
        elif r < 0.5 and variants:
            v = rng.choice(variants)
            start = v["g"] - rng.randint(0, L - 5)
        else:
            start = rng.randint(lo - 20, hi - 10)
        start = max(10, min(start, len(contig) - 400))
        # reference-consuming skeleton
        ops = []
        left = L
        while left > 0:
            run = min(left, rng.randint(1, 60))
            ops.append(["M", run])
            left -= run
            if left > 0:
                r2 = rng.random()
                if r2 < 0.25:
                    ops.append(["I", rng.randint(1, 4)])
                    if rng.random() < 0.3:
                        ops.append(["D", rng.randint(1, 4)])  # adjacent indels
                elif r2 < 0.5:
                    ops.append(["D", rng.randint(1, 5)])
        if rng.random() < 0.1:
            ops.insert(0, ["I", rng.randint(1, 3)])  # leading insertion
        clip5 = rng.choice(["", "", "", "S", "H"])
        clip3 = rng.choice(["", "", "", "S", "H"])
        # build the query
        seq, quals, cig = [], [], []
        pos = start
        if clip5:
            k = rng.randint(1, 8)
            cig.append([clip5, k])
            if clip5 == "S":
                seq += [rng.choice("ACGT") for _ in range(k)]
                quals += [rng.choice(QUALS) for _ in range(k)]
        alt_at = {}
        for v in variants:
            if v["kind"] in ("snp", "mnp") and rng.random() < 0.5:
                # this read carries the variant (possibly only part of an MNP)
                part = len(v["alt"]) if rng.random() < 0.8 else rng.randint(1, len(v["alt"]))
                for j in range(part):
                    if v["alt"][j] != ".":  # (a gapped substitution leaves that base alone)
                        alt_at[v["g"] + j] = v["alt"][j]
        for op, k in ops:
            if op == "M":
                for j in range(k):
                    ref = contig[pos + j]
                    b = alt_at.get(pos + j, ref)
                    if rng.random() < 0.02:
                        b = rng.choice([x for x in "ACGTN" if x != ref])  # (a no-call is a base letter too)
                    seq.append(b)
                    quals.append(rng.choice(QUALS))
                cig.append(["M", k])
                pos += k
            elif op == "I":
                seq += [rng.choice("ACGT") for _ in range(k)]
                quals += [rng.choice(QUALS) for _ in range(k)]
                cig.append(["I", k])
            else:
                cig.append(["D", k])
                pos += k
        if clip3:
            k = rng.randint(1, 8)
            cig.append([clip3, k])
            if clip3 == "S":
                seq += [rng.choice("ACGT") for _ in range(k)]
                quals += [rng.choice(QUALS) for _ in range(k)]
        flag = 0
        r3 = rng.random()
        if r3 < 0.06:
            flag |= 0x100
        elif r3 < 0.12:
            flag |= 0x800
        elif r3 < 0.18:
            flag |= 0x400
        if rng.random() < 0.3:
            flag |= 0x10
        name = f"r{i}" if rng.random() < 0.7 or i == 0 else f"r{rng.randint(0, i - 1)}"
        reads.append({"start": start, "cigar": cig, "seq": "".join(seq), "quals": quals,
                      "mapq": rng.choice(MAPQS), "flag": flag, "name": name,
                      "noqual": rng.random() < 0.03})
    # fragments of two reads at a multi-nucleotide substitution or an insertion: one read covers the site, its
    # mate ends inside the substitution / on or next to the base the insertion is anchored to (it cannot tell
    # which allele the fragment carries there); what the fragment's record says must not depend on their order
    special = [v for v in variants if v["kind"] in ("mnp", "ins")]
    rng.shuffle(special)
    for j, v in enumerate(special[:3]):
        carries = rng.random() < 0.6
        g_ = v["g"]

        def mk(start_, end_):
            """error-free read over [start_, end_] of the fragment's haplotype"""
            seq_, cig_ = [], []
            if v["kind"] == "mnp":
                for p_ in range(start_, end_ + 1):
                    k_ = p_ - g_
                    seq_.append(v["alt"][k_] if carries and 0 <= k_ < len(v["alt"]) and v["alt"][k_] != "." else contig[p_])
                cig_ = [["M", end_ - start_ + 1]]
            else:
                if carries and start_ <= g_ < end_:
                    seq_ = list(contig[start_:g_ + 1]) + list(v["alt"]) + list(contig[g_ + 1:end_ + 1])
                    cig_ = [["M", g_ - start_ + 1], ["I", len(v["alt"])], ["M", end_ - g_]]
                else:
                    seq_ = list(contig[start_:end_ + 1])
                    cig_ = [["M", end_ - start_ + 1]]
            return {"start": start_, "cigar": cig_, "seq": "".join(seq_), "quals": [rng.choice(QUALS) for _ in seq_],
                    "mapq": rng.choice(MAPQS), "flag": 0, "name": f"pair{j}", "noqual": False}

        a_ = mk(g_ - rng.randint(20, 40), g_ + rng.randint(15, 40))
        cut_end = g_ + rng.choice([-1, 0, 0, 1])
        b_ = mk(cut_end - rng.randint(35, 60), cut_end)
        for r_ in rng.sample([a_, b_], 2):
            if 10 < r_["start"] and r_["start"] + 200 < len(contig):
                reads.append(r_)
    # reads that enclose the whole gene region (one long deletion / one long match run)
    for j in range(rng.choice([0, 1, 2])):
        a0 = lo - rng.randint(5, 40)
        span = hi - a0 + rng.randint(5, 40)
        if rng.random() < 0.6:
            k1, k2 = rng.randint(20, 40), rng.randint(20, 40)
            cig = [["M", k1], ["D", span - k1], ["M", k2]]
            seq = contig[a0:a0 + k1] + contig[a0 + span:a0 + span + k2]
        else:
            cig = [["M", span]]
            seq = contig[a0:a0 + span]
        reads.append({"start": a0, "cigar": cig, "seq": seq, "quals": [rng.choice(QUALS) for _ in seq],
                      "mapq": rng.choice(MAPQS), "flag": 0, "name": f"g{j}", "noqual": False})
    # a few unmapped and other-contig records
    for j in range(rng.randint(1, 4)):
        reads.append({"start": -1, "cigar": [], "seq": "ACGTACGTAC", "quals": [30] * 10, "mapq": 0,
                      "flag": 0x4, "name": f"u{j}", "unmapped": True})
    return reads


def resplit(rng, read, contig):
    """Same alignment, match runs re-split at random points into M / = / X pieces."""
    out = []
    pos = read["start"]
    q = 0
    for op, k in read["cigar"]:
        if op in ("M", "=", "X"):
            i = 0
            while i < k:
                run = min(k - i, rng.randint(1, 12))
                mode = rng.choice(["M", "EX", "M", "ARB"])
                if mode == "M":
                    out.append(["M", run])
                elif mode == "ARB":
                    # labels relative to the aligner's own reference, which need not agree with the
                    # database sequence base by base: any of M / = / X is a legal spelling of the run
                    out.append([rng.choice(["=", "X", "M"]), run])
                else:
                    # exact = / X runs
                    j = 0
                    while j < run:
                        same = read["seq"][q + i + j] == contig[pos + i + j]
                        e = j
                        while e < run and (read["seq"][q + i + e] == contig[pos + i + e]) == same:
                            e += 1
                        out.append(["=" if same else "X", e - j])
                        j = e
                i += run
            pos += k
            q += k
        else:
            out.append([op, k])
            if op == "D":
                pos += k
            elif op in ("I", "S"):
                q += k
    # merge nothing: adjacent identical ops are legal
    r = dict(read)
    r["cigar"] = out
    return r


def gen_plan(rng, tier, i, seed):
    cfg = TIERS[tier]
    kinds = ["snp", "snp", "mnp", "mnp"] if rng.random() < 0.7 else ["snp", "mnp", "del", "ins"]
    extra = {}
    if rng.random() < 0.3:
        # a multi-nucleotide substitution whose last base change is a catalogued substitution of its own
        extra = {"close_pair": "mnp_inner_snp", "close_func": True}
    if rng.random() < 0.4:
        # multi-nucleotide substitutions that are silent variants of a sub-allele (catalogued all the same)
        extra["silent_mnp"] = True
    if rng.random() < 0.4:
        # three-base substitutions whose middle base is not part of them (G.G>A.C)
        extra["gapped_mnp"] = True
    world = WL.one_gene_world(rng, small=True, kinds=kinds, n_variants=rng.choice([5, 7]), lfusion=False,
                              rfusion=False, **extra)
    reads = gen_reads(rng, world, rng.randint(*cfg["nreads"]))
    if any(v["kind"] in ("ins", "del") for v in world["genes"][0]["variants"].values()):
        # indelpost (third-party realigner) cannot digest records without base qualities
        for r in reads:
            r["noqual"] = False
    return {"world": world, "reads": reads, "hashseed": rng.choice([0, 1, 2]),
            "shuffle": rng.randint(0, 10**6), "deliveries": DELIVERIES,
            "error_at": rng.choice([0, 3, 40, 90, 10**6]), "error_kind": rng.choice(["OSError", "ValueError"]),
            # history: the same process loaded a sample of ANOTHER database with the same gene name and build a
            # moment ago (another release of the gene file, a patched copy): nothing of it may linger
            "prior_world_seed": rng.randint(0, 10**6) if rng.random() < 0.35 else None}


def execute(plan, runner, rundir):
    return {"segments": [runner.segment({"hashseed": plan["hashseed"], "rundir": rundir, "plan": plan})]}


def _v(clause, **detail):
    return {"clause": clause, "detail": detail}


def judge(plan, outcome):
    r = outcome["segments"][0]
    if r.get("unsound"):
        raise RuntimeError("reference model disagrees with htslib pileup: " + canon.jdump(r["unsound"])[:600])
    return r["violations"]


def signature(v):
    return {"clause": v["clause"], "delivery": v["detail"].get("delivery")}


def shrink(plan):
    n = len(plan["reads"])
    if n > 1:
        for k in (2, 4, 8, 16):
            chunk = max(1, n // k)
            for s in range(0, n, chunk):
                p = copy.deepcopy(plan)
                del p["reads"][s : s + chunk]
                if p["reads"]:
                    yield p
    if len(plan["deliveries"]) > 1:
        for d in plan["deliveries"]:
            p = copy.deepcopy(plan)
            p["deliveries"] = [d]
            yield p


def new_stats():
    return {"plans": 0, "reads": 0, "cells": 0, "deliveries": {}, "fired": {}, "ops": Counter(), "flags": Counter(),
            "mnp_complete": 0, "mnp_partial": 0, "fragments_multi": 0, "strands": Counter(), "perms": set(),
            "error_partial_checks": 0, "phase_sites": 0}


def count_evaluations(plan, out):
    return len(plan["deliveries"]) + 1


def update_stats(acc, plan, out):
    r = out["segments"][0]
    acc["plans"] += 1
    acc["reads"] += len(plan["reads"])
    acc["cells"] += r["stats"]["cells"]
    acc["phase_sites"] += r["stats"]["phase_sites"]
    for d in r["stats"]["deliveries"]:
        acc["deliveries"][d] = acc["deliveries"].get(d, 0) + 1
    for k, v in r["stats"]["fired"].items():
        acc["fired"][k] = acc["fired"].get(k, 0) + v
    acc["ops"].update(r["stats"]["ops"])
    acc["flags"].update(r["stats"]["flags"])
    acc["mnp_complete"] += r["stats"]["mnp_complete"]
    acc["mnp_partial"] += r["stats"]["mnp_partial"]
    acc["fragments_multi"] += r["stats"]["fragments_multi"]
    acc["strands"][plan["world"]["genes"][0]["strand"]] += 1
    acc["perms"].add((canon.digest(plan["reads"])[:8], plan["shuffle"]))
    acc["error_partial_checks"] += r["stats"]["error_checks"]


def sample_view(plan, out):
    return {"strand": plan["world"]["genes"][0]["strand"], "n_reads": len(plan["reads"]),
            "first_reads": [{k: v for k, v in r.items() if k not in ("quals",)} for r in plan["reads"][:2]],
            "error_at": plan["error_at"], "cells_compared": out["segments"][0]["stats"]["cells"]}


def evidence(acc):
    return {
        "coverage": {
            "distinct_nontrivial": len(acc["perms"]),
            "rule": "one evaluation = one delivery of a random read set loaded through aldy.sam.Sample and compared "
                    "cell by cell with the reference CIGAR interpreter (plus one read-error run); distinct_nontrivial "
                    "= distinct (read set, delivery permutation) pairs; every read set has >= 100 records",
            "plans": acc["plans"],
            "records": acc["reads"],
            "table_cells_compared": acc["cells"],
            "phase_sites_checked": acc["phase_sites"],
            "deliveries": acc["deliveries"],
            "fault_kinds_fired": acc["fired"],
            "cigar_ops_generated": dict(acc["ops"]),
            "flags_generated": dict(acc["flags"]),
            "probes": {"reads_with_complete_mnp": acc["mnp_complete"], "reads_with_partial_mnp": acc["mnp_partial"],
                       "fragments_with_several_reads": acc["fragments_multi"], "strands": dict(acc["strands"]),
                       "read_error_runs": acc["error_partial_checks"]},
            "components": {
                "real": ["aldy.sam.Sample (read eligibility, CIGAR walk, MNP merging, binning, coverage assembly)",
                         "aldy.coverage.Coverage accessors", "pysam/htslib BAM+SAM readers, BAI index"],
                "stub": ["AlignmentFile subclass owning delivery order / index visibility / read errors",
                         "container writers (BAM sorted, ties permuted, SAM text, re-split CIGARs, interleaved "
                         "ineligible records)"],
            },
        },
        "assumptions": [
            "indel evidence produced by indelpost (and parsed insertions it replaces) is excluded from the comparison",
            "base quality of deleted bases and of merged multi-nucleotide observations is not compared (statement silent)",
            "reference-skip (N) and padding operations are not generated (DNA alignments)",
        ],
    }


# ---------------------------------------------------------------------------
# child side

CODE = {"M": 0, "I": 1, "D": 2, "N": 3, "S": 4, "H": 5, "P": 6, "=": 7, "X": 8}


def write_container(path, world, reads, fmt, order_key=None, shuffle=None, extra=None):
    import pysam

    cname = world["contig"]["name"]
    clen = len(world["contig"]["seq"])
    # (the second contig's name ends with the gene's contig name, as 12 / 22 do for 2: only the exact name counts)
    sq = [{"SN": cname, "LN": clen}, {"SN": "un_" + cname, "LN": clen}]
    header = pysam.AlignmentHeader.from_dict({"HD": {"VN": "1.6"}, "SQ": sq})
    recs = list(reads) + list(extra or [])
    if shuffle is not None:
        random.Random(shuffle).shuffle(recs)
    if order_key is not None:
        recs.sort(key=order_key)
    with pysam.AlignmentFile(path, "wb" if fmt == "bam" else "w", header=header) as f:
        for r in recs:
            a = pysam.AlignedSegment(header)
            a.query_name = r["name"]
            a.flag = r["flag"]
            if r.get("unmapped"):
                a.reference_id = -1
                a.reference_start = -1
                a.query_sequence = r["seq"]
                a.query_qualities = pysam.qualitystring_to_array("".join(chr(33 + q) for q in r["quals"]))
            else:
                a.reference_id = 1 if r.get("other") else 0
                a.reference_start = r["start"]
                a.mapping_quality = r["mapq"]
                a.cigartuples = [(CODE[o], k) for o, k in r["cigar"]]
                if r.get("noseq"):
                    a.query_sequence = None
                else:
                    a.query_sequence = r["seq"]
                    if not r.get("noqual"):
                        a.query_qualities = pysam.qualitystring_to_array("".join(chr(33 + q) for q in r["quals"]))
            f.write(a)
    if fmt == "bam" and order_key is not None:
        pysam.index(path)
    return path


def eligible(r, lo, hi):
    if r.get("unmapped") or not r["cigar"] or r.get("other") or r.get("noseq"):
        return False
    if r["flag"] & 0x800:
        return False
    if any(o == "H" for o, _ in r["cigar"]):
        return False
    end = r["start"] + sum(k for o, k in r["cigar"] if o in ("M", "D", "=", "X", "N"))
    a0, a1 = r["start"], end
    return a0 <= lo <= a1 or lo <= a0 <= hi


def model(world, gene_obj, reads, lo, hi, multi_sites):
    """Reference pileup: table[pos][op] = Counter of (mapq_bin, baseq_bin|None)."""
    contig = world["contig"]["seq"]
    mapped = gene_obj.chr_to_ref
    table = defaultdict(lambda: defaultdict(Counter))
    shown = defaultdict(lambda: defaultdict(set))  # fragment -> pos -> alleles shown by M bases
    # fragment -> catalogued multi-nucleotide sites at which one of its reads ends *inside* the substitution
    # having shown it as far as it goes: whether such a read "covers" the site is not settled by the statement,
    # so an entry for it is neither required nor forbidden
    cut = defaultdict(set)
    full = defaultdict(lambda: defaultdict(set))  # fragment -> pos -> alleles shown by reads not cut at pos
    stats = {"mnp_complete": 0, "mnp_partial": 0}
    phaseable = {p for p, _ in gene_obj.mutations}
    ins_anchors = {p for p, op in gene_obj.mutations if op.startswith("ins")}
    for r in reads:
        if not eligible(r, lo, hi):
            continue
        mq = bin_q(r["mapq"])
        pos, q = r["start"], 0
        subs = {}  # pos -> (op, qual)
        rshown = {}  # pos -> alleles this read shows
        prev_q = 10
        for o, k in r["cigar"]:
            if o in ("M", "=", "X"):
                for j in range(k):
                    b = r["seq"][q + j]
                    bq = r["quals"][q + j] if not r.get("noqual") else prev_q
                    p = pos + j
                    if p in mapped and contig[p] != b:
                        subs[p] = (f"{contig[p]}>{b}", bq)
                        if p in phaseable:
                            rshown.setdefault(p, set()).add(f"{contig[p]}>{b}")
                    else:
                        table[p]["_"][(mq, bin_q(bq))] += 1
                        if p in phaseable:
                            rshown.setdefault(p, set()).add("_")
                    prev_q = bq
                pos += k
                q += k
            elif o == "D":
                for j in range(k):
                    table[pos + j]["-"][(mq, None)] += 1
                if pos in phaseable:
                    # deleted bases are spelled against the database's reference (N beyond its range)
                    rshown.setdefault(pos, set()).add("del" + gene_obj[pos : pos + k])
                pos += k
            elif o == "I":
                if not r.get("noqual"):
                    prev_q = sum(r["quals"][q : q + k]) / k
                # an insertion sits between pos-1 and pos; the catalogue anchors it at the base before
                if pos - 1 in phaseable:
                    rshown.setdefault(pos - 1, set()).add("ins" + r["seq"][q : q + k])
                q += k
            elif o == "S":
                q += k
        # the read's last aligned base is the base a catalogued insertion is anchored to: the read cannot show
        # the insertion, whether it "covers" that variant site is not settled by the statement either
        cut_here = set()
        if pos - 1 in ins_anchors and rshown.get(pos - 1) == {"_"}:
            cut[r["name"]].add(pos - 1)
            cut_here.add(pos - 1)
        # multi-nucleotide substitutions: complete ones count once, at the first position
        for mpos, mop in multi_sites.items():
            l, rr = mop.split(">")
            comp = [(mpos + p, f"{l[p]}>{rr[p]}") for p in range(len(l)) if l[p] != "."]
            have = [c for c in comp if subs.get(c[0], (None,))[0] == c[1]]
            if have and len(have) == len(comp):
                stats["mnp_complete"] += 1
                if mpos in phaseable:
                    # the allele this read shows at the catalogued site is the multi-substitution itself
                    rshown[mpos] = {mop}
                for p, (cp, cop) in enumerate(comp):
                    _, bq = subs.pop(cp)
                    if cp != mpos:
                        table[cp]["_"][(mq, bin_q(bq))] += 1
                table[mpos][mop][(mq, None)] += 1
            elif have:
                stats["mnp_partial"] += 1
                if mpos < pos < mpos + len(l) and all(c in have for c in comp if c[0] < pos):
                    cut[r["name"]].add(mpos)
                    cut_here.add(mpos)
        for p, (op, bq) in subs.items():
            table[p][op][(mq, bin_q(bq))] += 1
        for p, al in rshown.items():
            shown[r["name"]][p] |= al
            if p not in cut_here:
                full[r["name"]][p] |= al
    model.cut = cut
    model.full = full
    return table, shown, stats


def observed(sample, lo, hi):
    """aldy's table restricted to [lo, hi): pos -> op -> Counter((mq, bq))."""
    out = {}
    for pos, ops in sample.coverage._coverage.items():
        if not (lo <= pos < hi):
            continue
        for op, quals in ops.items():
            if op.startswith("ins"):
                continue
            out.setdefault(pos, {})[op] = Counter((float(m), float(b)) for m, b in quals)
    return out


def _fold(cell):
    """Outside the RefSeq-mapped part only the depth is defined: one bucket, no base quality."""
    c = Counter()
    for op, cnt in cell.items():
        for (mq, bq), n in cnt.items():
            c[(float(mq), None)] += n
    return {"-": c} if c else {}


def compare(tab, obs, lo, hi, viol, delivery, multi_ops, bounds):
    cells = 0
    for pos in range(lo, hi):
        want = tab.get(pos, {})
        got = obs.get(pos, {})
        if not bounds[0] <= pos <= bounds[1]:
            want, got = _fold(want), _fold(got)
        for op in set(want) | set(got):
            cells += 1
            w = want.get(op, Counter())
            g = got.get(op, Counter())
            nw, ng = sum(w.values()), sum(g.values())
            if nw != ng:
                clause = ("depth / count at a position differs from the number of eligible reads showing it")
                viol.append(_v(clause, delivery=delivery, pos=pos, op=op, expected=nw, got=ng))
                return cells
            # mapping quality of every observation
            wm = Counter()
            for (mq, bq), n in w.items():
                wm[float(mq)] += n
            gm = Counter()
            for (mq, bq), n in g.items():
                gm[float(mq)] += n
            if wm != gm:
                viol.append(_v("an observation lost its read's mapping quality", delivery=delivery, pos=pos, op=op,
                               expected=dict(wm), got=dict(gm)))
                return cells
            if op != "-" and op not in multi_ops:
                wq = Counter({(float(mq), float(bq)): n for (mq, bq), n in w.items()})
                if wq != g:
                    viol.append(_v("an observation lost its (binned) base quality", delivery=delivery, pos=pos, op=op,
                                   expected=sorted(wq.items())[:4], got=sorted(g.items())[:4]))
                    return cells
    return cells


def run_segment(seg):
    from aldy.gene import Gene
    from aldy.profile import Profile
    from aldy.sam import Sample

    from .. import streams

    streams.install_stream_seam()
    plan = seg["plan"]
    world = plan["world"]
    rd = seg["rundir"]
    os.makedirs(rd, exist_ok=True)
    os.chdir(rd)
    if plan.get("prior_world_seed") is not None:
        prng = random.Random(f"C06:prior:{plan['prior_world_seed']}")
        pw = WL.one_gene_world(prng, small=True, kinds=["snp", "mnp", "snp"], n_variants=5, lfusion=False, rfusion=False)
        pdir = os.path.join(rd, "prior")
        os.makedirs(pdir, exist_ok=True)
        W.materialise_db(pw, pdir)
        pg = Gene(os.path.join(pdir, pw["genes"][0]["name"].lower() + ".yml"), genome="hg19")
        W.write_bam(os.path.join(pdir, "p.bam"), pw, W.sample_reads(pw, W.reference_sample(pw)))
        Sample(pg, Profile("user_provided", cn_solution=["1", "1"]), os.path.join(pdir, "p.bam"))
        SIM.fire("prior_sample_of_same_gene_name")
    W.materialise_db(world, rd)
    g = world["genes"][0]
    gene = Gene(os.path.join(rd, g["name"].lower() + ".yml"), genome="hg19")
    wide = gene.get_wide_region()
    lo, hi = wide.start, wide.end
    reads = plan["reads"]
    contig = world["contig"]["seq"]
    bounds = (min(gene.chr_to_ref), max(gene.chr_to_ref))
    # every catalogued multi-nucleotide substitution - core variants of major alleles and silent variants of
    # their sub-alleles alike (the statement says "catalogued")
    multi_sites = {pos: op for pos, op in sorted(gene.mutations) if ">" in op and len(op) > 3}
    tab, shown, mstats = model(world, gene, reads, lo, hi, multi_sites)
    viol, unsound = [], []
    stats = {"cells": 0, "deliveries": [], "fired": {}, "ops": Counter(), "flags": Counter(),
             "mnp_complete": mstats["mnp_complete"], "mnp_partial": mstats["mnp_partial"], "fragments_multi": 0,
             "error_checks": 0, "phase_sites": 0}
    for r in reads:
        for o, k in r["cigar"]:
            stats["ops"][o] += 1
        for name, bit in (("secondary", 0x100), ("supplementary", 0x800), ("duplicate", 0x400), ("unmapped", 0x4)):
            if r["flag"] & bit:
                stats["flags"][name] += 1
    names = Counter(r["name"] for r in reads if eligible(r, lo, hi))
    stats["fragments_multi"] = sum(1 for n in names.values() if n > 1)
    rng = random.Random(plan["shuffle"])
    # ineligible extras for delivery (f)
    extras = []
    for j in range(20):
        base = dict(rng.choice([r for r in reads if not r.get("unmapped")]))
        kind = j % 5
        base["name"] = f"x{j}"
        if kind == 0:
            base["flag"] = base["flag"] | 0x800
        elif kind == 1:
            base["cigar"] = [["H", 5]] + [c for c in base["cigar"] if c[0] not in ("H",)]
        elif kind == 2:
            base["other"] = True  # same coordinates, another contig
        elif kind == 3:
            base["start"] = hi + 300 + j
        else:
            base.update(unmapped=True, cigar=[], start=-1, flag=0x4)
        if not eligible(base, lo, hi):
            extras.append(base)
    profile = Profile("user_provided", cn_solution=["1", "1"])

    def key_sorted(r):
        return (2 if r.get("unmapped") else (1 if r.get("other") else 0), r["start"], r["name"], canon.jdump(r["cigar"]))

    def key_ties(r):
        return (2 if r.get("unmapped") else (1 if r.get("other") else 0), r["start"])

    ref_obs = None
    ref_phases, ref_delivery = None, None
    tables = {}
    for d in plan["deliveries"]:
        SIM.cfg.pop("stream", None)
        streams.reset()
        path = os.path.join(rd, f"{d}.bam")
        use = reads
        if d == "bam_sorted":
            write_container(path, world, reads, "bam", order_key=key_sorted)
        elif d == "bam_ties":
            write_container(path, world, reads, "bam", order_key=key_ties, shuffle=plan["shuffle"])
        elif d == "sam_text":
            path = os.path.join(rd, f"{d}.sam")
            write_container(path, world, reads, "sam", shuffle=plan["shuffle"] + 1, extra=extras)
        elif d == "seam_shuffle":
            write_container(path, world, reads, "bam", order_key=key_sorted)
            SIM.cfg["stream"] = {"shuffle": plan["shuffle"] + 2}
        elif d == "seam_noindex":
            write_container(path, world, reads, "bam", order_key=key_sorted, extra=extras)
            SIM.cfg["stream"] = {"shuffle": plan["shuffle"] + 3, "hide_index": True}
        elif d == "resplit":
            use = [r if r.get("unmapped") else resplit(rng, r, contig) for r in reads]
            write_container(path, world, use, "bam", order_key=key_sorted)
        elif d == "ineligible":
            write_container(path, world, reads, "bam", order_key=key_ties, shuffle=plan["shuffle"] + 4, extra=extras)
        s = Sample(gene, profile, path)
        obs = observed(s, lo, hi)
        tables[d] = obs
        stats["deliveries"].append(d)
        multi_ops = set(multi_sites.values())
        stats["cells"] += compare(tab, obs, lo, hi, viol, d, multi_ops, bounds)
        # phase records: the same whatever the delivery (order, container, index, CIGAR run splitting)
        # (where the reads of a fragment that cover a site completely all show one allele, the record must state
        # that allele - in every delivery, whatever a mate that is cut at the site shows; where they disagree, or
        # only cut reads reach the site, any allele one of them shows will do)
        for frag, sites in model.full.items():
            ph = s.phases.get(frag, {})
            for p, alleles in sites.items():
                m_alleles = {a for a in alleles if not a.startswith(("del", "ins"))}
                if len(alleles) == 1 and len(m_alleles) == 1 and ph.get(p) != next(iter(m_alleles)):
                    viol.append(_v("phase record does not state the allele the fragment's covering reads agree on",
                                   delivery=d, fragment=frag, pos=p, expected=sorted(m_alleles), got=ph.get(p),
                                   cut_mate=p in model.cut.get(frag, ())))
                    break
        for frag, sites in shown.items():
            ph = s.phases.get(frag, {})
            for p, alleles in sites.items():
                m_alleles = {a for a in alleles if not a.startswith(("del", "ins"))}
                if not m_alleles:
                    continue
                stats["phase_sites"] += 1
                if p not in ph and p in model.cut.get(frag, ()):
                    continue
                if p not in ph:
                    viol.append(_v("phase record misses a catalogued site the fragment covers", delivery=d,
                                   fragment=frag, pos=p, shown=sorted(alleles)))
                    break
                if ph[p] not in alleles:
                    viol.append(_v("phase record states an allele none of the fragment's reads shows", delivery=d,
                                   fragment=frag, pos=p, recorded=ph[p], shown=sorted(alleles)))
                    break
        if ref_obs is None:
            ref_obs = obs
        elif obs != ref_obs and not viol:
            pos = next(p for p in sorted(set(obs) | set(ref_obs)) if obs.get(p) != ref_obs.get(p))
            viol.append(_v("evidence depends on delivery order / container / CIGAR split", delivery=d, pos=pos,
                           got=canon.jdump({k: sorted(v.items()) for k, v in obs.get(pos, {}).items()})[:300],
                           first=canon.jdump({k: sorted(v.items()) for k, v in ref_obs.get(pos, {}).items()})[:300]))
        for k, v in SIM.fired.items():
            stats["fired"][k] = stats["fired"].get(k, 0) + v
        SIM.fired.clear()
    # htslib's own pileup as a second reference for the model (simulator soundness)
    try:
        import pysam

        with pysam.AlignmentFile(os.path.join(rd, "bam_sorted.bam")) as f:
            byname = {}
            for col in f.pileup(world["contig"]["name"], lo, hi, stepper="nofilter", min_base_quality=0,
                                ignore_overlaps=False, flag_filter=0, ignore_orphans=False, max_depth=100000,
                                truncate=True):
                n = 0
                for pr in col.pileups:
                    a = pr.alignment
                    if a.is_supplementary or "H" in (a.cigarstring or "") or pr.is_refskip:
                        continue
                    n += 1
                want = sum(sum(c.values()) for c in tab.get(col.reference_pos, {}).values())
                if n != want:
                    unsound.append({"pos": col.reference_pos, "htslib": n, "model": want})
                    break
    except Exception as ex:  # pileup API trouble is not a verdict
        stats["pileup_error"] = repr(ex)[:200]
    # E: read error at the k-th record: an exception or the full table, never a partial one
    if plan["error_at"] is not None and "bam_sorted" in plan["deliveries"]:
        SIM.cfg["stream"] = {"error_at": plan["error_at"], "error": plan["error_kind"], "error_open": 2}
        streams.reset()
        stats["error_checks"] += 1
        try:
            s = Sample(gene, profile, os.path.join(rd, "bam_sorted.bam"))
            obs = observed(s, lo, hi)
            if obs != tables["bam_sorted"]:
                viol.append(_v("a read error in the stream produced a partial table instead of an error",
                               delivery="read_error", error_at=plan["error_at"], fired=dict(SIM.fired)))
        except (OSError, ValueError) as ex:
            pass
        except Exception as ex:
            if type(ex).__name__ != "AldyException":
                raise
        for k, v in SIM.fired.items():
            stats["fired"][k] = stats["fired"].get(k, 0) + v
        SIM.cfg.pop("stream", None)
    stats["ops"] = dict(stats["ops"])
    stats["flags"] = dict(stats["flags"])
    return {"violations": viol[:8], "unsound": unsound[:2], "stats": stats}

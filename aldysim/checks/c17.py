"""C17 - a debug dump replays to the same result.

History: [write] `aldy genotype <bam> --debug <prefix>` in one process segment, then
[replay] `aldy genotype <prefix>.tar.gz` in another segment with another hash seed,
cwd, TMPDIR and clock - through the real CLI entry point.  Faults are injected in
the writing segment *after* the dump exists (solver faults in later stages, a full
disk under the result file, another gene failing); the archive must still replay to
the fault-free result of genotyping the alignments directly.
"""

import copy
import os
import random

from .. import canon
from .. import ops as O
from .. import workload as WL
from .. import world as W
from ..seams import SIM

ID = "C17"
LEVEL = "exploration"
SEGMENT_TIMEOUT = 240
TIERS = {
    "quick": dict(plans=40, budget_s=75, worlds=14, det_plans=2),
    "thorough": dict(plans=5000, budget_s=1200, worlds=400, det_plans=8, always_selftest=True),
}
SCORE_TOL = 1e-2
FAULTS = ["none", "none", "solver", "solver", "out_enospc", "failing_gene"]


def gen_world(seed, wi):
    rng = random.Random(f"C17:{seed}:w:{wi}")
    ng = rng.choice([1, 1, 2])
    gopts = [WL.gene_opts(rng, small=True) for _ in range(ng)]
    exome = wi % 4 == 3
    if exome:
        # a database the shipped "illumina" profile knows by name and region names (3 exons, no
        # pseudogene), with a whole-gene deletion allele so that copy-number calling exists: the
        # exome / wxs / wes route works on it (copy-number calling switched off, two copies assumed)
        ng = 1
        gopts = [dict(WL.gene_opts(rng, small=True), name="NUDT15", n_exons=3, pseudo=False, deletion=True,
                      lfusion=False, rfusion=False, cn_subset=False)]
    deep = wi % 67 == 5  # (thorough tier only: the quick tier has 14 worlds)
    if deep and not exome:
        ng = 1
        gopts = [dict(WL.gene_opts(rng, small=True), gene_len=420, pseudo=False, lfusion=False, rfusion=False,
                      deletion=True)]
    if wi % 9 == 2 and not exome:
        # (family "novel": an allele of two core variants none of which has an allele of its own)
        gopts[0].update(orphan_core="always", ambiguous=False, n_variants=8)
    if ng == 2 and rng.random() < 0.4:
        # one gene's name is a prefix of the other's (as CYP3A4 / CYP3A43): both end up in one archive
        gopts[1]["name"] = "SIMA" + rng.choice(["3", "B", "P1"])
    gopts.append(dict(strand=rng.choice("+-"), gene_len=420, n_exons=2, n_variants=3, n_major=1,
                      pseudo=False, deletion=True, name="SIMZ"))
    ro = WL.read_opts(rng)
    world = W.gen_world(rng, ng + 1, gopts, ro, margin=max(200, ro["L"] + 60))
    world["genes"][-1]["no_reads"] = True
    smp = {"name": "s0", "genes": {}, "phase_seed": rng.randint(0, 999), "paired": rng.random() < 0.6}
    for g in world["genes"][:-1]:
        smp["genes"][g["name"]] = WL.gen_units(rng, g)
    if rng.random() < 0.5:
        WL.add_pseudogene_variants(rng, world, smp["genes"], n=rng.randint(1, 2))
    if rng.random() < 0.3:
        # the declared neutral region is wider than what the reads cover (positions with zero depth)
        c0, c1 = world["neutral"]
        world["neutral_zone"] = [c0 + rng.randint(5, 40), c1 - rng.randint(5, 40)]
    if rng.random() < 0.4 or deep:
        # uneven qualities: some records below the mapping-quality threshold, scattered bases of quality 5,
        # possibly only in the first / second half of the file (the archive stores the observations of a
        # position as a multiset; the order in which they come back is not the read order)
        smp["lowq"] = {"seed": rng.randint(0, 999), "frac": rng.choice([0.15, 0.3, 0.45]),
                       "kind": rng.choice(["base", "base", "mapq", "both"]),
                       "shape": rng.choice(["random", "front", "back"])}
    if deep and not exome:
        # ultra-deep sample: more than 5000 observations per position
        per_copy = ro["L"] // ro["step"]
        smp["dup"] = -(-5400 // (2 * per_copy))
        smp["genes"] = {g["name"]: [u for u in us if u["type"] in ("normal", "deletion")][:2] or
                        [{"type": "normal", "allele": "1.001"}, {"type": "normal", "allele": "1.001"}]
                        for g, us in ((g, smp["genes"][g["name"]]) for g in world["genes"][:-1])}
        if rng.random() < 0.7:
            # two copies of one allele with variants and a third copy of another: at its sites one allele has
            # more than 5000 observations and the other allele is present too
            for g in world["genes"][:-1]:
                normal = [a["name"] for a in g["alleles"] if a["kind"] == "normal"]
                withv = [a["name"] for a in g["alleles"] if a["kind"] == "normal" and a["vars"]]
                if withv:
                    a = rng.choice(withv)
                    smp["genes"][g["name"]] = [{"type": "normal", "allele": a}, {"type": "normal", "allele": a},
                                               {"type": "extra", "allele": rng.choice([n for n in normal if n != a])}]
    if exome and wi % 8 == 7:
        # targeted data: deep gene, thin off-target cover of the neutral region (an average of just over 2)
        smp["neutral_thin"] = rng.choice([2.03, 2.06, 2.1])
    if exome:
        # a structure other than two plain copies: the exome route must not notice, and neither may the replay
        g0 = world["genes"][0]
        normal = [a["name"] for a in g0["alleles"] if a["kind"] == "normal"]
        units = [u for u in smp["genes"][g0["name"]] if u["type"] == "normal"][:2]
        while len(units) < 2:
            units.append({"type": "normal", "allele": rng.choice(normal)})
        smp["genes"][g0["name"]] = units + [{"type": "extra", "allele": rng.choice(normal)}]
    novel = False
    if wi % 9 == 2 and not exome and not deep:
        # one copy carries a functional variant that none of its allele's definitions has: a novel allele is
        # reported, whose name depends on the display format
        g0 = world["genes"][0]
        orphan = [a for a in g0["alleles"] if a["kind"] == "normal" and len(a["vars"]) == 2
                  and all(g0["variants"][v]["func"] and g0["variants"][v]["kind"] == "snp"
                          and sum(1 for b in g0["alleles"] if v in b["vars"]) == 1 for v in a["vars"])]
        if orphan:
            smp["genes"][g0["name"]] = [{"type": "normal", "allele": "1.001",
                                         "noise": [{"vid": orphan[0]["vars"][0], "frac": 1.0}]},
                                        {"type": "normal", "allele": "1.001"}]
            novel = True
    if wi % 9 == 4 and not exome and not deep:
        # no read in the neutral region: the sample is refused while it is loaded - by the run and by the replay
        smp["no_neutral_reads"] = True
    if rng.random() < 0.25:
        smp["chr_prefix"] = True  # the alignment file names its contigs chr<name>
    build = rng.choice(["hg19", "hg19", "hg38"])
    if build == "hg19" and rng.random() < 0.2:
        # a header the build detection does not recognise (a contig named 22 of another length): aldy falls back
        # to hg19 with a warning, and the archive of that run has to replay all the same
        smp["header_extra"] = [{"SN": "22", "LN": 43000000 + rng.randint(0, 9999)}]
    return {"world": world, "samples": {"s0": smp}, "build": build, "ngenes": ng, "exome": exome, "novel": novel}


OTHER_PARAMS = {
    "indelpost": ["false", "False", "0"], "threshold": ["0.4", "0.6"], "min_coverage": ["2", "8"],
    "min_quality": ["5", "20"], "min_mapq": ["5", "30"], "cn_parsimony": ["0.4", "0.6"], "cn_diff": ["8", "11"],
    "cn_fit": ["1.5", "0.75"], "cn_pce_penalty": ["1.5"], "cn_fusion_left": ["0.4", "0.6"],
    "cn_fusion_right": ["0.2", "0.3"], "cn_max": ["10"], "major_novel": ["20", "22"], "minor_miss": ["1.4", "1.6"],
    "minor_add": ["1.1", "0.9"], "minor_phase": ["0.3", "0.5"], "male": ["true"], "debug_novel": ["true"],
}


def gen_plan(rng, tier, i, seed):
    cfg = TIERS[tier]
    if tier == "thorough" and i % 60 == 11:
        # shipped NA10860 (CYP2D6, real reads): write the archive, replay it elsewhere
        return {"shipped": rng.choice(["NA10860.bam", "NA10860_hg38.bam"]), "w": None, "genes": ["CYP2D6"],
                "params": rng.choice([{}, {"gap": "0.1"}, {"max_minor_solutions": "2"}]), "cn": None,
                "profile_name": "illumina", "out": rng.choice(["aldy", "vcf", "simple"]), "fault": "none",
                "fault_at": 0, "fault_kind": "abnormal",
                "write": {"hashseed": rng.choice([0, 1]), "cwd": "run", "clock": {}},
                "replay": {"hashseed": rng.choice([2, 3, 4]), "cwd": rng.choice(["run", "root"]), "tmp": "run",
                           "clock": {"start": 2.1e9, "jumps": [-3.0, 1.0]}, "per_gene": False}}
    w = gen_world(seed, i % cfg["worlds"])
    names = [g["name"] for g in w["world"]["genes"][: w["ngenes"]]]
    failing = w["world"]["genes"][-1]["name"]
    fault = rng.choice(FAULTS)
    genes = list(names)
    rng.shuffle(genes)
    if fault == "failing_gene":
        genes.insert(rng.randint(0, len(genes)), failing)
    params = {}
    if rng.random() < 0.6:
        params["gap"] = rng.choice(["0.1", "0.3"])
    if rng.random() < 0.3:
        params["max_minor_solutions"] = "2"
    if rng.random() < 0.25:
        # above the sample's depth: the direct run refuses the gene, and so must the replay
        params["min_avg_coverage"] = rng.choice(["5", "1000", "1000"])
    if rng.random() < 0.2:
        params["phase"] = rng.choice(["True", "False"])
    if rng.random() < 0.25:
        # few phasing variables: the minor model down-samples the phase records (order matters there)
        params["minor_phase_vars"] = rng.choice(["8", "20", "40"])
    if rng.random() < 0.2:
        # database indels counted from the CIGARs instead of realigned: another evidence payload in the archive
        params["indelpost"] = rng.choice(["false", "False", "0"])
    if rng.random() < 0.5:
        # any other model parameter: the replay gets the same --param list and must end the same way
        for n in rng.sample(sorted(OTHER_PARAMS), rng.randint(1, 3)):
            params[n] = rng.choice(OTHER_PARAMS[n])
    cn = None
    if rng.random() < 0.15 or (fault == "failing_gene" and rng.random() < 0.5):
        # (with a user-supplied structure the gene nobody sequenced must be refused on replay as well)
        cn = "1,1"
    profile_name = None
    if w.get("exome"):
        profile_name = rng.choice(["exome", "wxs", "wes", None])
        if profile_name:
            cn = None
            if fault == "failing_gene":
                fault = "none"
                genes = list(names)
    rebuild = (fault == "none" and profile_name is None and rng.random() < 0.2)
    # one process: the run with --debug, then the same gene under a technology profile given by name (copy-number
    # calling switched off for that call), then the replay of the archive
    exome_between = bool(w.get("exome") and rng.random() < 0.4)
    if exome_between:
        profile_name, rebuild, fault, cn, genes = None, False, "none", None, list(names)
    profile_opts = None
    special = w.get("novel") or w["samples"]["s0"].get("no_neutral_reads")
    if w["samples"]["s0"].get("no_neutral_reads"):
        cn = None  # (with a user-supplied structure the neutral region is not looked at)
    if not rebuild and profile_name is None and rng.random() < (0.7 if special else 0.25):
        # the profile is a YAML file whose options section sets parameters (they are part of the archive's
        # pickled profile; the replay gets no profile at all and must end the same way)
        profile_opts = {}
        names_ = rng.sample(["min_avg_coverage", "gap", "min_coverage", "threshold", "minor_add", "max_minor_solutions",
                             "display_format", "display_format", "debug_novel"], rng.randint(1, 2))
        names_ = list(dict.fromkeys(names_))
        if rng.random() < 0.5 and "min_avg_coverage" not in names_:
            names_.append("min_avg_coverage")  # (the dump reader has its own idea of this one)
        for n in names_:
            profile_opts[n] = {"min_avg_coverage": rng.choice([1000, 1000, 5]), "gap": 0.3, "min_coverage": 8,
                               "threshold": 0.4, "minor_add": 1.1, "max_minor_solutions": 2, "display_format": True,
                               "debug_novel": True}[n]
        params.pop("min_avg_coverage", None)
        if w.get("novel") and rng.random() < 0.7:
            profile_opts = {"display_format": True}
    out_kind = rng.choice(["aldy", "aldy", "vcf", "simple"])
    if w["samples"]["s0"].get("no_neutral_reads") and rng.random() < 0.6:
        out_kind = "simple"
    return {
        "exome_between": exome_between,
        "rebuild": rebuild,
        "profile_opts": profile_opts,
        "w": w,
        "genes": genes,
        "params": params,
        "cn": cn,
        "profile_name": profile_name,
        "out": out_kind,
        "fault": fault,
        "fault_at": rng.randint(1, 14),
        "fault_kind": rng.choice(["infeasible", "abnormal", "not_solved", "incumbent", "verify"]),
        "write": {"hashseed": rng.choice([0, 1, 2, 3]), "cwd": rng.choice(["run", "world"]),
                  "clock": {"start": 1.7e9, "jumps": [0.5, 2.0]},
                  # the archive's member order is the file system's directory order: an environment choice
                  "member_order": rng.choice([None, None, "sorted", "reversed", f"shuffle:{rng.randint(0, 999)}"])},
        "replay": {"hashseed": rng.choice([0, 1, 2, 3, 4, 5, 6, 7]), "cwd": rng.choice(["run", "world", "root"]),
                   "tmp": rng.choice(["default", "run"]),
                   "clock": {"start": rng.choice([1.7e9, 2.1e9]), "jumps": [rng.choice([0.1, -3.0, 86400.0]), 1.0]},
                   "per_gene": rng.random() < 0.5,
                   # history between the run and the replay: the user's profile file (the one the run was given)
                   # is regenerated with another depth table, or is gone (another machine); the archive is
                   # self-contained and the replay is not given the file
                   "profile_file_after": (random.Random(f"C17:pfa:{seed}:{i}").choice(["changed", "removed", "kept"])
                                          if profile_opts is not None else "kept")},
    }


def _materialise(runner, w):
    wd = canon.digest([w["world"], w["samples"], w["build"]])

    def make():
        d = os.path.join(runner.root, f"world-{wd}")
        return d, runner.segment({"kind": "materialise", "hashseed": 0, "world": w["world"],
                                  "samples": w["samples"], "build": w["build"], "dir": d})

    return wd, runner.memoised(("world", wd), make)


def execute(plan, runner, rundir):
    if plan.get("shipped"):
        common = {"shipped": plan["shipped"], "rundir": rundir, "genes": plan["genes"], "params": plan["params"],
                  "cn": None, "out": plan["out"], "profile_name": plan["profile_name"], "build": "hg19",
                  "sim": {"max_solves": 20000, "max_wall": 900.0}}
        rd = runner.new_dir("direct")
        try:
            ref = runner.segment(dict(common, kind="direct", hashseed=0, cwd="run", rundir=rd, clock={}, tag="d"), timeout=900)
        finally:
            import shutil

            shutil.rmtree(rd, ignore_errors=True)
        wr = runner.segment(dict(common, kind="write", tag="w", **plan["write"]), timeout=900)
        rp = runner.segment(dict(common, kind="replay", tag="r", **plan["replay"]), timeout=900) if wr["archive"] else None
        return {"direct": ref, "write": wr, "replay": rp}
    w = plan["w"]
    if plan.get("rebuild"):
        return _execute_rebuild(plan, runner, rundir)
    wd, (worlddir, man) = _materialise(runner, w)
    common = {"worlddir": worlddir, "man": man, "rundir": rundir, "build": w["build"], "genes": plan["genes"],
              "params": plan["params"], "cn": plan["cn"], "out": plan["out"], "profile_name": plan.get("profile_name"),
              "profile_opts": plan.get("profile_opts"), "world": w["world"] if plan.get("profile_opts") else None}

    def direct():
        rd = runner.new_dir("direct")
        try:
            return runner.segment(dict(common, kind="direct", hashseed=0, cwd="run", rundir=rd, clock={}, tag="d"))
        finally:
            import shutil

            shutil.rmtree(rd, ignore_errors=True)

    ref = runner.memoised(("direct", wd, canon.digest([plan["genes"], plan["params"], plan["cn"], plan["out"],
                                                       plan.get("profile_name"), plan.get("profile_opts")])),
                          direct)
    sim = {}
    if plan["fault"] == "solver":
        sim = {"faults": [{"at": plan["fault_at"], "kind": plan["fault_kind"], "seed": 1}]}
    if plan.get("exome_between"):
        both = runner.segment(dict(common, kind="history3", tag="h", sim=sim, write=plan["write"], replay=plan["replay"],
                                   hashseed=plan["write"]["hashseed"], between=rng_name(plan)))
        return {"direct": ref, "write": both["write"], "replay": both["replay"]}
    wr = runner.segment(dict(common, kind="write", tag="w", sim=sim, enospc=plan["fault"] == "out_enospc",
                             **plan["write"]))
    rp = None
    if wr["archive"]:
        rp = runner.segment(dict(common, kind="replay", tag="r", **plan["replay"]))
    return {"direct": ref, "write": wr, "replay": rp}


def rng_name(plan):
    return ["exome", "wxs", "wes"][plan["write"]["hashseed"] % 3]


def _execute_rebuild(plan, runner, rundir):
    """One process: archive written for the hg19 alignments and replayed, then the SAME debug name is
    reused for the hg38 alignments of the same sample and replayed again."""
    w = plan["w"]
    res = {"rebuild": True, "direct": {}, "steps": None}
    mans = {}
    for build in ("hg19", "hg38"):
        wb = dict(w, build=build)
        wd, (worlddir, man) = _materialise(runner, wb)
        mans[build] = (wd, worlddir, man)
        common = {"worlddir": worlddir, "man": man, "build": build, "genes": plan["genes"], "params": plan["params"],
                  "cn": plan["cn"], "out": plan["out"], "profile_name": None}

        def direct(common=common):
            rd = runner.new_dir("direct")
            try:
                return runner.segment(dict(common, kind="direct", hashseed=0, cwd="run", rundir=rd, clock={}, tag="d"))
            finally:
                import shutil

                shutil.rmtree(rd, ignore_errors=True)

        res["direct"][build] = runner.memoised(("direct", wd, canon.digest([plan["genes"], plan["params"], plan["cn"],
                                                                         plan["out"], None])), direct)
    res["steps"] = runner.segment({"kind": "rebuild", "hashseed": plan["replay"]["hashseed"], "rundir": rundir,
                                   "worlds": {b: {"worlddir": mans[b][1], "man": mans[b][2]} for b in mans},
                                   "genes": plan["genes"], "params": plan["params"], "cn": plan["cn"],
                                   "out": plan["out"], "profile_name": None, "cwd": "run", "clock": {}, "tag": "rb"})
    return res


def _cmp(a, b):
    d = canon.first_diff(canon.strip_scores(a), canon.strip_scores(b))
    if d:
        return d
    for (pa, x), (pb, y) in zip(canon.scores(a), canon.scores(b)):
        if abs(x - y) >= SCORE_TOL:
            return f"{pa}: score {x} vs {y}"
    return None


def _v(clause, **detail):
    return {"clause": clause, "detail": detail}


def judge(plan, outcome):
    vs = []
    if outcome.get("rebuild"):
        for build in ("hg19", "hg38"):
            ref = outcome["direct"][build]
            rp = outcome["steps"][build]
            env = {"mode": "same process, same debug name, two builds", "build": build, "genes": plan["genes"],
                   "params": plan["params"]}
            if not rp["archive"]:
                vs.append(_v("no debug archive was produced", **env))
                continue
            d = _cmp(rp["results"], ref["results"])
            if d:
                vs.append(_v("replayed result differs from genotyping the alignments", diff=d,
                             got=canon.jdump(rp["results"])[:400], want=canon.jdump(ref["results"])[:400], **env))
            if rp["output"] != ref["output"]:
                vs.append(_v("replayed output file differs from the direct run's output file", **env))
        return vs
    ref, wr, rp = outcome["direct"], outcome["write"], outcome["replay"]
    env = {"fault": plan["fault"], "fired": wr["fired"], "genes": plan["genes"], "params": plan["params"],
           "write_hashseed": plan["write"]["hashseed"], "replay_hashseed": plan["replay"]["hashseed"]}
    if not wr["archive"]:
        vs.append(_v("no debug archive was produced", exit=wr["exit"], **env))
        return vs
    # the writing run itself (no fault fired) must equal the plain run
    if not wr["fired"] and plan["fault"] in ("none", "failing_gene"):
        d = _cmp(wr["results"], ref["results"])
        if d:
            vs.append(_v("run with --debug differs from the run without", diff=d, **env))
        if wr["output"] != ref["output"]:
            vs.append(_v("output of the run with --debug differs from the run without", **env))
    # replay == direct, gene by gene
    for g in plan["genes"]:
        key = g.lower() + ".yml"
        want = [x for x in ref["results"] if x[0] == key]
        got = [x for x in rp["results"] if x[0] == key]
        in_archive = any(m.endswith(f".{g}.dump") for m in wr["members"])
        if not in_archive:
            if want:
                vs.append(_v("gene genotyped directly has no dump in the archive", gene=g, **env))
            continue
        d = _cmp(got, want)
        if d:
            vs.append(_v("replayed result differs from genotyping the alignments", gene=g, diff=d,
                         got=canon.jdump(got)[:600], want=canon.jdump(want)[:600], **env))
    if rp["sample_names"] != ref["sample_names"]:
        vs.append(_v("replayed sample name differs", got=rp["sample_names"], want=ref["sample_names"], **env))
    if rp["output"] != ref["output"]:
        vs.append(_v("replayed output file differs from the direct run's output file",
                     diff=canon.first_diff((rp["output"] or "").split("\n"), (ref["output"] or "").split("\n")),
                     **env))
    return vs


def signature(v):
    return {"clause": v["clause"]}


def shrink(plan):
    if plan["fault"] != "none":
        p = copy.deepcopy(plan)
        p["fault"] = "none"
        if p["w"]["world"]["genes"][-1]["name"] in p["genes"]:
            p["genes"].remove(p["w"]["world"]["genes"][-1]["name"])
        yield p
    if len(plan["genes"]) > 1:
        for g in plan["genes"]:
            p = copy.deepcopy(plan)
            p["genes"].remove(g)
            yield p
    for k in list(plan["params"]):
        p = copy.deepcopy(plan)
        del p["params"][k]
        yield p
    if plan["cn"]:
        p = copy.deepcopy(plan)
        p["cn"] = None
        yield p
    if plan["replay"]["hashseed"] != plan["write"]["hashseed"]:
        p = copy.deepcopy(plan)
        p["replay"]["hashseed"] = p["write"]["hashseed"] = 0
        yield p
    if plan["replay"]["cwd"] != "run" or plan["replay"].get("tmp") != "default":
        p = copy.deepcopy(plan)
        p["replay"].update(cwd="run", tmp="default", clock={})
        p["write"].update(cwd="run", clock={})
        yield p
    if plan["out"] != "aldy":
        p = copy.deepcopy(plan)
        p["out"] = "aldy"
        yield p


def new_stats():
    return {"plans": 0, "faults": {}, "fired": {}, "hs_pairs": set(), "multi": 0, "shapes": set(),
            "indel_samples": 0, "multi_solution": 0, "errors_replayed": 0, "genes_compared": 0,
            "clock_backward": 0, "paired": 0}


def count_evaluations(plan, out):
    return len(plan["genes"])


def update_stats(acc, plan, out):
    acc["plans"] += 1
    if out.get("rebuild"):
        acc["rebuild"] = acc.get("rebuild", 0) + 1
        acc["genes_compared"] += 2 * len(plan["genes"])
        return
    if plan.get("exome_between"):
        acc["same_process_technology_profile_histories"] = acc.get("same_process_technology_profile_histories", 0) + 1
    acc["faults"][plan["fault"]] = acc["faults"].get(plan["fault"], 0) + 1
    for k, v in out["write"]["fired"].items():
        acc["fired"][k] = acc["fired"].get(k, 0) + v
    for k, v in ((out.get("replay") or {}).get("fired") or {}).items():
        if k.startswith("profile_file_"):  # (history between run and replay: counted where it happened)
            acc["fired"][k] = acc["fired"].get(k, 0) + v
    acc["hs_pairs"].add((plan["write"]["hashseed"], plan["replay"]["hashseed"]))
    if len(plan["genes"]) > 1:
        acc["multi"] += 1
    acc["shapes"].add(canon.digest([plan["genes"], plan["params"], plan["cn"], plan["out"], plan["fault"],
                                    canon.digest(plan["w"]) if plan["w"] else plan.get("shipped")])[:12])
    if plan.get("shipped"):
        acc["shipped"] = acc.get("shipped", 0) + 1
        acc["genes_compared"] += 1
        return
    smp = plan["w"]["samples"]["s0"]
    if smp.get("paired"):
        acc["paired"] += 1
    for g in plan["w"]["world"]["genes"]:
        for u in smp["genes"].get(g["name"], []):
            for v in W.unit_variants(g, u) if u["type"] != "deletion" else []:
                if g["variants"][v]["kind"] in ("ins", "del"):
                    acc["indel_samples"] += 1
                    break
    acc["genes_compared"] += len(plan["genes"])
    for _, sols in out["direct"]["results"]:
        if len(sols) > 1:
            acc["multi_solution"] += 1
    if out["replay"]:
        acc["clock_backward"] += out["replay"].get("clock_backward", 0)


def sample_view(plan, out):
    if out.get("rebuild"):
        return {"mode": "rebuild", "genes": plan["genes"], "params": plan["params"]}
    return {"genes": plan["genes"], "params": plan["params"], "cn": plan["cn"], "out": plan["out"],
            "fault": plan["fault"], "write": plan["write"], "replay": plan["replay"],
            "sample": plan["w"]["samples"]["s0"]["genes"] if plan["w"] else plan.get("shipped"), "archive_members": out["write"]["members"],
            "direct_result": canon.jdump(out["direct"]["results"])[:400]}


def evidence(acc):
    return {
        "coverage": {
            "distinct_nontrivial": len(acc["shapes"]),
            "rule": "one evaluation = one gene of one write -> restart -> replay history compared with the direct "
                    "fault-free run; distinct_nontrivial = distinct (world, gene list, parameters, structure option, "
                    "output kind, fault kind) combinations",
            "plans": acc["plans"],
            "fault_plan_kinds": acc["faults"],
            "fault_kinds_fired": dict(acc["fired"], process_restart=acc["plans"]),
            "distinct_hash_seed_pairs": len(acc["hs_pairs"]),
            "probes": {
                "multi_gene_archives": acc["multi"],
                "units_carrying_indel_alleles": acc["indel_samples"],
                "direct_runs_with_several_solutions": acc["multi_solution"],
                "paired_name_samples": acc["paired"],
                "genes_compared": acc["genes_compared"],
                "replay_clock_backward_jumps": acc["clock_backward"],
                "shipped_NA10860_sessions": acc.get("shipped", 0),
                "same_process_run_technology_profile_replay_sessions": acc.get("same_process_technology_profile_histories", 0),
                "same_process_two_build_sessions": acc.get("rebuild", 0),
            },
            "components": {
                "real": ["aldy.__main__.main (argument parsing, debug archive, tar via os.system)", "aldy.sam dump "
                         "writer / reader", "genotype pipeline", "CBC", "pysam, indelpost", "gzip, pickle, tar"],
                "stub": ["wall clock", "solver proxy (faults in the writing segment only; plain CBC otherwise)",
                         "recording wrapper around aldy.__main__.genotype"],
            },
        },
        "assumptions": [
            "scores compared with SOLUTION_PRECISION (1e-2); everything else exactly, including output bytes",
            "faults during the dump / tar write itself are not injected: the statement says nothing about damaged archives",
        ],
    }


# ---------------------------------------------------------------------------
# child side


def _install_genotype_recorder():
    import aldy.__main__ as M

    calls = []
    orig = M.genotype
    if getattr(orig, "_aldysim", False):
        orig = orig.__wrapped__

    def rec(*a, **k):
        r = orig(*a, **k)
        calls.append(r)
        return r

    rec._aldysim = True
    rec.__wrapped__ = orig
    M.genotype = rec
    return calls


def _argv(seg, source, debug=None, outp=None, genes=None, with_profile=True):
    if seg.get("shipped"):
        argv = ["genotype", source, "--gene", ",".join(seg["genes"]), "--profile", seg["profile_name"]]
        if outp:
            argv += ["-o", outp]
        if debug:
            argv += ["--debug", debug]
        for k, v in seg["params"].items():
            argv += ["--param", f"{k}={v}"]
        return argv + ["--solver", "cbc"]
    wd, man = seg["worlddir"], seg["man"]
    genes = genes or seg["genes"]
    argv = ["genotype", source, "--gene", ",".join(os.path.join(wd, man["db"][g]) for g in genes)]
    if seg.get("profile_name"):
        # technology profile by name (exome family): given on every invocation, also when replaying
        argv += ["--profile", seg["profile_name"]]
        if with_profile:
            argv += ["-n", man["neutral"]]
    elif with_profile and seg.get("profile_opts"):
        argv += ["--profile", _profile_with_options(seg)]
    elif with_profile:
        argv += ["--profile", os.path.join(wd, man["ref_bam"]), "-n", man["neutral"]]
    if seg["build"] != "hg19" and (with_profile or seg.get("profile_name")):
        argv += ["--genome", seg["build"]]
    if seg["cn"]:
        argv += ["--cn", seg["cn"]]
    if outp:
        argv += ["-o", outp]
    if debug:
        argv += ["--debug", debug]
    for k, v in seg["params"].items():
        argv += ["--param", f"{k}={v}"]
    argv += ["--solver", "cbc"]
    return argv


def _profile_with_options(seg):
    """Profile YAML written by aldy's profile generator from the reference sample, plus a hand-written
    options section."""
    import yaml

    rd = seg["rundir"]
    path = os.path.join(rd, "profile-with-options.yml")
    if not os.path.exists(path):
        d = os.path.join(rd, "pw")
        os.makedirs(d, exist_ok=True)
        for f in os.listdir(seg["worlddir"]):
            if not os.path.lexists(os.path.join(d, f)):
                os.symlink(os.path.join(seg["worlddir"], f), os.path.join(d, f))
        O.write_profile_yaml(seg["world"], d, "ref.bam", seg["build"], {}, "plain.yml")
        doc = yaml.safe_load(open(os.path.join(d, "plain.yml")))
        doc["options"] = dict(seg["profile_opts"])
        with open(path, "w") as f:
            f.write(yaml.dump(doc, default_flow_style=None))
    return path


def _collect(calls):
    res = {}
    for r in calls:
        for k, v in (r or {}).items():
            res[k] = v
    return [[os.path.basename(k), v] for k, v in canon.genotype_result(res)]


def _sample_names(output, kind):
    names = set()
    for l in (output or "").split("\n"):
        if not l or l.startswith("##"):
            continue
        if kind == "vcf":
            if l.startswith("#CHROM"):
                for c in l.split("\t")[9:]:
                    names.add(c.split(":")[0])
        elif not l.startswith("#"):
            names.add(l.split("\t")[0])
    return sorted(names)


def _reorder_archive(arch, order):
    """Same members, same bytes, another directory order (tar stores them in readdir order)."""
    import io
    import tarfile

    with tarfile.open(arch, "r:gz") as t:
        items = [(m, t.extractfile(m).read() if m.isfile() else None) for m in t.getmembers()]
    dirs = [x for x in items if x[1] is None]
    files = sorted((x for x in items if x[1] is not None), key=lambda x: x[0].name)
    if order == "reversed":
        files.reverse()
    elif order.startswith("shuffle:"):
        random.Random(order).shuffle(files)
    with tarfile.open(arch, "w:gz") as t:
        for m, data in dirs + files:
            t.addfile(m, io.BytesIO(data) if data is not None else None)
    SIM.fire("archive_members_reordered")


def run_segment(seg):
    from .. import seams

    if seg["kind"] == "materialise":
        return O.materialise(seg["world"], seg["dir"], seg["samples"], build=seg["build"], profile_yaml=False)
    if seg["kind"] == "history3":
        base = {k: v for k, v in seg.items() if k not in ("write", "replay", "between", "kind")}
        wr = run_segment(dict(base, kind="write", tag="w", **{k: v for k, v in seg["write"].items() if k != "hashseed"}))
        mid = dict(base, profile_name=seg["between"], profile_opts=None, cn=None)
        O.run_main(_argv(mid, os.path.join(seg["worlddir"], seg["man"]["samples"]["s0"]),
                         outp=os.path.join(seg["rundir"], "between.aldy")))
        SIM.fire("same_process_technology_profile_run")
        rp = None
        if wr["archive"]:
            rp = run_segment(dict(base, kind="replay", tag="r", **{k: v for k, v in seg["replay"].items() if k != "hashseed"}))
        return {"write": wr, "replay": rp}
    ft = seams.install_clock(seg.get("clock") or {})
    rd = seg["rundir"]
    if seg.get("shipped"):
        from aldy.common import script_path

        wd, man = rd, {"samples": {"s0": script_path("aldy.tests.resources/" + seg["shipped"])}}
    elif seg["kind"] == "rebuild":
        wd, man = rd, None
    else:
        wd, man = seg["worlddir"], seg["man"]
    os.makedirs(rd, exist_ok=True)
    os.chdir({"run": rd, "world": wd, "root": "/"}[seg.get("cwd", "run")])
    if seg.get("tmp") == "run":
        import tempfile

        t = os.path.join(rd, f"tmp-{seg['tag']}")
        os.makedirs(t, exist_ok=True)
        os.environ["TMPDIR"] = t
        tempfile.tempdir = t
    calls = _install_genotype_recorder()
    if seg["kind"] == "rebuild":
        out = {}
        prefix = os.path.join(rd, "dbg")
        for build in ("hg19", "hg38"):
            sub = dict(seg, build=build, **seg["worlds"][build])
            bam_b = os.path.join(sub["worlddir"], sub["man"]["samples"]["s0"])
            O.run_main(_argv(sub, bam_b, debug=prefix, outp=os.path.join(rd, f"w-{build}.{seg['out']}")))
            del calls[:]
            outp_b = os.path.join(rd, f"r-{build}.{seg['out']}")
            O.run_main(_argv(sub, prefix + ".tar.gz", outp=outp_b, with_profile=False))
            out[build] = {"archive": os.path.exists(prefix + ".tar.gz"), "results": _collect(calls),
                          "output": open(outp_b).read() if os.path.exists(outp_b) else None}
            del calls[:]
        return out
    bam = os.path.join(wd, man["samples"]["s0"])
    prefix = os.path.join(rd, "dbg")
    outp = os.path.join(rd, f"out-{seg['tag']}.{seg['out']}")
    res = {}
    if seg["kind"] == "direct":
        rec = O.run_main(_argv(seg, bam, outp=outp))
    elif seg["kind"] == "write":
        target = "/dev/full" if seg.get("enospc") else outp
        rec = O.run_main(_argv(seg, bam, debug=prefix, outp=target))
        arch = prefix + ".tar.gz"
        res["archive"] = os.path.exists(arch)
        res["members"] = []
        if res["archive"]:
            import tarfile

            try:
                if seg.get("member_order"):
                    _reorder_archive(arch, seg["member_order"])
                with tarfile.open(arch, "r:gz") as t:
                    res["members"] = sorted(t.getnames())
            except Exception as ex:
                res["members"] = [f"<unreadable: {type(ex).__name__}>"]
        if seg.get("enospc"):
            SIM.fire("out_enospc")
    else:  # replay
        arch = prefix + ".tar.gz"
        pf = os.path.join(rd, "profile-with-options.yml")
        if seg.get("profile_file_after", "kept") != "kept" and os.path.exists(pf):
            if seg["profile_file_after"] == "removed":
                os.remove(pf)
            else:
                import yaml

                doc = yaml.safe_load(open(pf))
                for k, v in doc.items():
                    if k != "options" and isinstance(v, dict):
                        doc[k] = {r: ([x * 3 + 7 if isinstance(x, (int, float)) and not isinstance(x, bool) else x for x in d] if isinstance(d, list) else d) for r, d in v.items()}
                with open(pf, "w") as f:
                    f.write(yaml.dump(doc, default_flow_style=None))
            SIM.fire("profile_file_" + seg["profile_file_after"])
        def pg(i):
            return os.path.join(rd, f"out-{seg['tag']}-{i}.{seg['out']}")

        if seg.get("per_gene"):
            rec = None
            for i, g in enumerate(seg["genes"]):
                rec = O.run_main(_argv(seg, arch, outp=pg(i), genes=[g], with_profile=False))
            # concatenate the per-gene outputs in order
            txt = ""
            for i, g in enumerate(seg["genes"]):
                if os.path.exists(pg(i)):
                    txt += open(pg(i)).read()
            with open(outp, "w") as f:
                f.write(txt)
        else:
            rec = O.run_main(_argv(seg, arch, outp=outp, with_profile=False))
    res["exit"] = rec["exit"]
    res["exc"] = rec["exc"]
    res["results"] = _collect(calls)
    res["output"] = open(outp).read() if os.path.exists(outp) and not seg.get("enospc") else None
    res["sample_names"] = _sample_names(res["output"], seg["out"])
    res["fired"] = {k: v for k, v in SIM.fired.items() if not k.startswith("adversary") and k != "jitter"}
    res["solves"] = SIM.solve_index
    res["clock_backward"] = ft.backward
    return res

"""C05 - the ILP layer returns true optima and exact linearisations.

Simulator-owned dimension: the solver's behaviour at the pywraplp boundary - which
optimal vertex it returns (adversary), integrality jitter, and every non-OPTIMAL
outcome / failed verification at every solve index of an enumeration (fault
enumeration).  Oracle: brute-force reference over all binary assignments with the
closed-form value of the continuous part (generator-known structure).
"""

import copy
import itertools
import os
import random
import sys

from .. import canon
from ..seams import SIM

ID = "C05"
LEVEL = "fault_enumeration"
SEGMENT_TIMEOUT = 240
TIERS = {
    "quick": dict(plans=48, budget_s=70, models=10, det_plans=2, advs=4),
    "thorough": dict(plans=4000, budget_s=900, models=14, det_plans=8, advs=8, always_selftest=True),
}
FAULT_KINDS = ["abnormal", "not_solved", "infeasible", "feasible", "unbounded", "verify", "incumbent"]
TOL = 1e-4

TRICKY = [
    "A_1.001_0", "A_1001_0", "N_4785.G>C", "N_4785GC", "K_100_insTT_2#1_2#1.001_0", "K_100_insTT_2__1_2__1001_0",
    "E_12_delAC", "x-y", "xmy", "a.b-c#d>e", "ambc__de", "PH_0_1",
]


def gen_tie_family(rng):
    """Symmetric alleles with non-dyadic data: exact ties whose floating-point objectives may differ
    in the last bit (the gap test must not lose them)."""
    nb = rng.randint(3, 7)
    c = rng.choice([0.45, 0.15, 0.3, 0.35, 0.7, 1.1, 0.05, 2.45])
    names = [f"A_{j}_0" for j in range(nb)]
    errs = [{"name": f"E_{j}", "coefs": {str(j): 1}, "target": c, "w": rng.choice([1, 1, 1, 0.7])} for j in range(nb)]
    w = errs[0]["w"]
    for e in errs:
        e["w"] = w
    pen = rng.choice([0, 0.1, 0.3])
    if rng.random() < 0.5:
        # near ties: objectives of the one-hot assignments differ by a few thousandths (more than the
        # solver precision of 1e-5, less than the solution precision of 1e-2)
        for e in errs:
            e["target"] = round(c + rng.choice([0, 0.001, 0.002, 0.004, 0.007]), 3)
    return {"bins": names, "errs": errs, "card": [{"idx": list(range(nb)), "op": "==", "k": rng.choice([1, 1, 2])}],
            "order": [], "lin": {str(j): pen for j in range(nb)} if pen else {}, "prods": [],
            "gap": rng.choice([0, 0, 0.1]), "limit": None}


def gen_model(rng):
    if rng.random() < 0.2:
        return gen_tie_family(rng)
    nb = rng.randint(2, 8)
    names = []
    pool = list(TRICKY)
    rng.shuffle(pool)
    long_base = "L" * 205
    for j in range(nb):
        r = rng.random()
        if r < 0.35 and pool:
            names.append(pool.pop())
        elif r < 0.45:
            names.append(long_base + str(j))  # identical first 200 characters
        elif r < 0.55 and names:
            names.append(rng.choice(names))  # verbatim duplicate
        else:
            names.append(f"B_{j}")
    ne = rng.randint(1, 5)
    errs = []
    for i in range(ne):
        k = rng.randint(1, min(4, nb))
        idx = sorted(rng.sample(range(nb), k))
        coefs = {str(j): rng.choice([1, 1, 1, 2]) for j in idx}
        # targets on a coarse grid make exact ties common (that is what the adversary needs)
        target = rng.choice([0, 0.5, 1, 1, 1.5, 2, 2, 2.5, 3]) if rng.random() < 0.8 else round(rng.uniform(0, 3), 2)
        errs.append({"name": f"E_{i}" if rng.random() < 0.8 else "E_pce", "coefs": coefs, "target": target,
                     "w": rng.choice([1, 1, 1, 2, 0.5, 0])})  # a weight of 0 is a legal weight (cn_pce_penalty=0)
    card = []
    for _ in range(rng.randint(0, 2)):
        k = rng.randint(2, nb)
        idx = sorted(rng.sample(range(nb), k))
        op = rng.choice(["==", "<=", ">="])
        n = rng.randint(1, max(1, k - 1))
        card.append({"idx": idx, "op": op, "k": n})
    order = []
    for _ in range(rng.randint(0, 3)):
        if nb >= 2:
            i, j = rng.sample(range(nb), 2)
            order.append([i, j])
    lin = {}
    for j in range(nb):
        if rng.random() < 0.5:
            lin[str(j)] = rng.choice([0.1, 0.25, 0.5, 1, 1.5])
    prods = []
    for p in range(rng.randint(0, 3)):
        k = rng.randint(1, min(4, nb))
        prods.append({"terms": sorted(rng.sample(range(nb), k)),
                      "w": rng.choice([0.5, 1, 1.5, -0.5, -1])})
    m = {"bins": names, "errs": errs, "card": card, "order": order, "lin": lin, "prods": prods,
         "ge_first": rng.random() < 0.5,
         "gap": rng.choice([0, 0, 0.1, 0.5]), "limit": rng.choice([None, None, None, 1, 2, 3])}
    if rng.random() < 0.3:
        # the same expression written another way: a coefficient of 2 as two entries of the sum, and a constant
        # carried by every penalty term
        m["dup_terms"] = True
        m["lin_const"] = rng.choice([0, 0.25, 0.5])
    if rng.random() < 0.25:
        # the absolute-value helper asked twice on one model: a second sum over some of the same error terms, with
        # other weights
        m["abs_twice"] = {str(i): rng.choice([0.5, 1, 2, 0.25]) for i in range(len(errs)) if rng.random() < 0.6}
        for i, e in enumerate(errs):
            # (distinct names: the uniquifying suffix of repeated names is not injective - `X`, `X`, `X_2` - and a
            # second helper for a repeated name runs into that; a recorded observation, not this family's business)
            e["name"] = f"E_{i}"
    if rng.random() < 0.06:
        # a group of alleles that happens to be empty of which one copy is wanted: the row has no variable in it
        # and cannot be satisfied (Python folds it to False before the interface sees it)
        m["empty_group"] = rng.choice([1, 2])
    if rng.random() < 0.2:
        # error terms whose bounds are not symmetric around zero
        m["err_bounds"] = rng.choice([[-6, 1], [-5, 0.5], [-8, 2], [-1, 6]])
    if rng.random() < 0.25:
        # a general integer variable ("copies in the background", 0..3) in one of the equations
        m["zint"] = {"err": rng.randrange(len(errs)), "ub": 3, "pen": rng.choice([0.05, 0.3, 0.7])}
    return m


def tie_block():
    """Systematic block of symmetric tie families (non-dyadic constants x sizes)."""
    out = []
    for c in (0.45, 0.15, 0.3, 0.35, 0.7, 1.1, 0.05, 2.45, 0.9, 1.35):
        for nb, gef in ((3, False), (4, False), (4, True), (5, True)):
            out.append({"ge_first": gef, "bins": [f"A_{j}_0" for j in range(nb)],
                        "errs": [{"name": f"E_{j}", "coefs": {str(j): 1}, "target": c, "w": 1} for j in range(nb)],
                        "card": [{"idx": list(range(nb)), "op": "==", "k": 1}], "order": [], "lin": {}, "prods": [],
                        "gap": 0, "limit": None})
    return out


def gen_long(rng, tier="quick"):
    """Many co-optimal solutions: n symmetric binaries, exactly k of them set, objective 0 for every such
    assignment.  The enumeration has to yield all C(n, k) of them, one solve each.  `headroom`: the segment
    runs with that many stack frames left (aldy driven from deep inside a caller's stack - the interpreter's
    recursion limit is a resource of the environment like any other); the thorough tier also enumerates more
    than a thousand solutions under the default limit."""
    shapes = [(10, 5, 150), (11, 4, 150), (10, 4, 120)]
    if tier == "thorough":
        shapes += [(13, 5, None), (12, 6, None), (11, 5, 300)]
    n, k, headroom = rng.choice(shapes)
    return {"bins": [f"A_{j}_0" for j in range(n)],
            "errs": [{"name": "E_0", "coefs": {str(j): 1 for j in range(n)}, "target": k, "w": 1}],
            "card": [{"idx": list(range(n)), "op": "==", "k": k}], "order": [], "lin": {}, "prods": [],
            "gap": 0, "limit": None, "long": True, "headroom": headroom}


def gen_plan(rng, tier, i, seed):
    cfg = TIERS[tier]
    models = [gen_model(rng) for _ in range(cfg["models"])]
    if i % 8 == 1:
        models = tie_block()
    if i % 24 == 5:
        models = [gen_long(rng, tier)]
    plan = {
        "segments": [
            {
                "hashseed": rng.choice([0, 1, 2, 3]),
                "models": models,
                "advs": [rng.randint(0, 10**9) for _ in range(cfg["advs"])],
                "jitter": rng.randint(0, 10**9),
                # W2 is exhaustive and tiny; it is run by the first plans only
                "w2": i < 2,
                "w3": (i % 4 == 0),
                "w3_seed": rng.randint(0, 10**9),
            }
        ]
    }
    return plan


def execute(plan, runner, rundir):
    from ..pool import HarnessError

    out = []
    for s in plan["segments"]:
        try:
            out.append(runner.segment(dict(s, rundir=rundir)))
        except HarnessError as he:
            if he.kind != "crash":
                raise
            # the interpreter died inside the solver library while aldy's interface was driving it
            # (e.g. OR-Tools aborts on duplicate variable / constraint names): that is a verdict here
            out.append({"violations": [{"clause": "process aborted while a model built through the interface was "
                                                  "being solved", "detail": {"mode": "crash", "note": he.detail}}],
                        "unsound": [], "runs": 1, "sample_yields": None,
                        "stats": {"models": 0, "fired": {}, "fault_points": [], "vertices": [], "ties": 0,
                                  "truncated": 0, "w2": 0, "w3_models": 0, "w3_yields": 0, "multi_yield": 0,
                                  "name_collisions": 0, "shapes": [], "helper_checks": 0}})
    return {"segments": out}


def judge(plan, outcome):
    vs = []
    for res in outcome["segments"]:
        for v in res["violations"]:
            vs.append(v)
        if res.get("unsound"):
            raise RuntimeError("simulator unsound: " + canon.jdump(res["unsound"])[:800])
    return vs


def signature(v):
    return {"clause": v["clause"], "mode": v["detail"].get("mode")}


def shrink(plan):
    seg = plan["segments"][0]
    if len(seg["models"]) > 1:
        for i in range(len(seg["models"])):
            p = copy.deepcopy(plan)
            p["segments"][0]["models"] = [seg["models"][i]]
            p["segments"][0]["w2"] = False
            p["segments"][0]["w3"] = False
            yield p
    elif seg["models"]:
        m = seg["models"][0]
        for key in ("prods", "card", "order", "errs"):
            for j in range(len(m[key])):
                if key == "errs" and len(m[key]) == 1:
                    continue
                p = copy.deepcopy(plan)
                del p["segments"][0]["models"][0][key][j]
                yield p
        if m["limit"] is not None:
            p = copy.deepcopy(plan)
            p["segments"][0]["models"][0]["limit"] = None
            yield p
        if len(seg["advs"]) > 1:
            for a in seg["advs"]:
                p = copy.deepcopy(plan)
                p["segments"][0]["advs"] = [a]
                yield p
    if seg.get("w2") or seg.get("w3"):
        p = copy.deepcopy(plan)
        p["segments"][0]["w2"] = False
        p["segments"][0]["w3"] = False
        if p["segments"][0]["models"]:
            yield p


def new_stats():
    return {"plans": 0, "models": 0, "runs": 0, "fired": {}, "fault_points": set(), "vertices": set(),
            "ties": 0, "truncated": 0, "w2": 0, "w3_models": 0, "w3_yields": 0, "multi_yield": 0,
            "name_collisions": 0, "adv_moved": 0, "shapes": set(), "helper_checks": 0}


def count_evaluations(plan, out):
    return sum(r["runs"] for r in out["segments"])


def update_stats(acc, plan, out):
    acc["plans"] += 1
    for r in out["segments"]:
        st = r["stats"]
        acc["models"] += st["models"]
        acc["runs"] += r["runs"]
        for k, v in st["fired"].items():
            acc["fired"][k] = acc["fired"].get(k, 0) + v
        acc["fault_points"].update(tuple(x) for x in st["fault_points"])
        acc["vertices"].update(tuple(x) for x in st["vertices"])
        acc["shapes"].update(st["shapes"])
        for k in ("ties", "truncated", "w2", "w3_models", "w3_yields", "multi_yield", "name_collisions",
                  "helper_checks"):
            acc[k] += st[k]
        acc["longest_enumeration"] = max(acc.get("longest_enumeration", 0), st.get("long_enumerations", 0))


def sample_view(plan, out):
    return {"model": plan["segments"][0]["models"][0], "advs": plan["segments"][0]["advs"][:2],
            "first_yields": out["segments"][0].get("sample_yields")}


def evidence(acc):
    return {
        "coverage": {
            "distinct_nontrivial": len(acc["shapes"]),
            "rule": "one evaluation = one enumeration of one model under one solver behaviour (plain, adversary "
                    "sub-seed, jitter, or one fault kind at one solve index) judged against the brute-force "
                    "reference; distinct_nontrivial = distinct (model digest) with >= 2 feasible assignments",
            "plans": acc["plans"],
            "models": acc["models"],
            "fault_kinds_fired": acc["fired"],
            "distinct_fault_points": len(acc["fault_points"]),
            "distinct_model_vertex_pairs": len(acc["vertices"]),
            "probes": {
                "models_with_tie_on_optimal_face": acc["ties"],
                "enumerations_truncated_by_fault": acc["truncated"],
                "enumerations_with_ge2_yields": acc["multi_yield"],
                "models_with_colliding_names": acc["name_collisions"],
                "w2_exhaustive_helper_cases": acc["w2"],
                "helper_value_checks": acc["helper_checks"],
                "w3_aldy_built_models": acc["w3_models"],
                "w3_yields_monitored": acc["w3_yields"],
                "longest_enumeration_yields": acc.get("longest_enumeration", 0),
            },
            "components": {
                "real": ["aldy.lpinterface (model(), CBC wrapper, solutions(), abssum, prod, getValue)",
                         "CBC through OR-Tools (every solve is a real solve)",
                         "aldy.cn / aldy.major / aldy.minor model builders (W3)"],
                "stub": ["delegating pywraplp.Solver proxy: picks another optimal vertex by a real re-solve on the "
                         "optimal face, perturbs integer read-back by <=1e-7, replaces the returned status or the "
                         "verification verdict at one solve index"],
            },
        },
        "assumptions": [
            "reference optimum by enumeration of all binary assignments (<= 8 base binaries + helpers); the "
            "continuous part has a closed form because every error term is tied by one equality",
            "objective comparison tolerance 1e-4 (solver precision is 1e-5); a within-gap assignment inside a 1e-4 "
            "band around the gap boundary may or may not be reported",
            "'agrees with independent solvers' is not decided: no second MILP solver is importable offline",
        ],
    }


# ---------------------------------------------------------------------------
# child side


def _intended(m, b):
    """Feasibility and intended objective of a base assignment b (tuple of 0/1)."""
    if m.get("empty_group"):
        return None
    for c in m["card"]:
        s = sum(b[j] for j in c["idx"])
        if c["op"] == "==" and s != c["k"]:
            return None
        if c["op"] == "<=" and s > c["k"]:
            return None
        if c["op"] == ">=" and s < c["k"]:
            return None
    for i, j in m["order"]:
        if b[i] > b[j]:
            return None
    neg = sum(-p["w"] for p in m["prods"] if p["w"] < 0)
    z = m.get("zint")
    best = None
    for zv in range((z["ub"] + 1) if z else 1):
        obj = neg
        for i, e in enumerate(m["errs"]):
            v = e["target"] - sum(c * b[int(j)] for j, c in e["coefs"].items())
            if z and i == z["err"]:
                v -= zv
            eb = m.get("err_bounds")
            if eb and not (eb[0] - 1e-9 <= v <= eb[1] + 1e-9):
                obj = None
                break
            obj += e["w"] * abs(v) + m.get("abs_twice", {}).get(str(i), 0) * abs(v)
        if obj is None:
            continue
        if z:
            obj += z["pen"] * zv
        for j, pen in m["lin"].items():
            obj += pen * b[int(j)] + m.get("lin_const", 0)
        for p in m["prods"]:
            obj += p["w"] * int(all(b[j] for j in p["terms"]))
        best = obj if best is None else min(best, obj)
    return best  # (None: no value of the integer variable / error terms within their bounds)


def _build(m):
    import aldy.lpinterface as lpi

    M = lpi.model("T", "cbc")
    B = [M.addVar(vtype="B", name=n) for n in m["bins"]]
    bnames = [M.varName(v) for v in B]
    E = []
    coeffs = {}
    for e in m["errs"]:
        eb = m.get("err_bounds") or [-M.INF, M.INF]
        v = M.addVar(lb=eb[0], ub=eb[1], name=e["name"])
        E.append(v)
        coeffs[M.varName(v)] = e["w"]
        if m.get("dup_terms"):
            expr = M.quicksum([B[int(j)] for j, c in e["coefs"].items() for _ in range(int(c))])
        else:
            expr = M.quicksum(c * B[int(j)] for j, c in e["coefs"].items())
        if m.get("zint") and m["zint"]["err"] == len(E) - 1:
            Z = M.addVar(vtype="I", lb=0, ub=m["zint"]["ub"], name="Z_bg")
            expr = expr + Z
            zterm = m["zint"]["pen"] * Z
        if m.get("ge_first"):
            M.addConstr(expr + v >= e["target"], name=f"C_{e['name']}")
            M.addConstr(expr + v <= e["target"], name=f"C_{e['name']}")
        else:
            M.addConstr(expr + v <= e["target"], name=f"C_{e['name']}")
            M.addConstr(expr + v >= e["target"], name=f"C_{e['name']}")
    for ci, c in enumerate(m["card"]):
        expr = M.quicksum(B[j] for j in c["idx"])
        if m.get("ge_first") and c["op"] == "==":
            M.addConstr(expr >= c["k"], name=f"CARD_{ci}")
            M.addConstr(expr <= c["k"], name=f"CARD_{ci}")
            continue
        if c["op"] in ("==", "<="):
            M.addConstr(expr <= c["k"], name=f"CARD_{ci}")
        if c["op"] in ("==", ">="):
            M.addConstr(expr >= c["k"], name=f"CARD_{ci}")
    for i, j in m["order"]:
        M.addConstr(B[i] <= B[j], name=f"CORD_{i}_{j}")
    if m.get("empty_group"):
        M.addConstr(sum(B[j] for j in []) >= m["empty_group"], name="CSAT_empty")
    o_abs = M.abssum(E, coeffs=coeffs)
    obj = o_abs
    if m.get("abs_twice"):
        sub = [E[int(i)] for i in sorted(m["abs_twice"], key=int) if int(i) < len(E)]
        if sub:
            obj = obj + M.abssum(sub, coeffs={M.varName(E[int(i)]): w for i, w in m["abs_twice"].items() if int(i) < len(E)})
    if m.get("zint"):
        obj += zterm
    if m["lin"] and m.get("lin_const") is not None and m.get("dup_terms"):
        obj += M.quicksum([pen * B[int(j)] + m["lin_const"] for j, pen in m["lin"].items()])
    else:
        obj += M.quicksum(pen * B[int(j)] for j, pen in m["lin"].items()) if m["lin"] else 0
    P = []
    for pi, p in enumerate(m["prods"]):
        res = M.addVar(vtype="B", name=f"MUL_{pi}")
        P.append(M.prod(res, [B[j] for j in p["terms"]]))
        obj += p["w"] * res
    neg = sum(-p["w"] for p in m["prods"] if p["w"] < 0)
    one = None
    if neg:
        one = M.addVar(vtype="B", name="ONE")
        M.addConstr(one >= 1, name="CONE")
        obj += neg * one
    M.setObjective(obj)
    pnames = [M.varName(v) for v in P]
    return M, B, bnames, P, pnames, E, o_abs, one


def _reference(m):
    nb = len(m["bins"])
    table = {}
    for b in itertools.product((0, 1), repeat=nb):
        o = _intended(m, b)
        if o is not None:
            table[b] = o
    return table


def _active_names(m, b, bnames, pnames, one):
    s = {bnames[j] for j in range(len(b)) if b[j]}
    for p, pn in zip(m["prods"], pnames):
        if all(b[j] for j in p["terms"]):
            s.add(pn)
    if one is not None:
        s.add("ONE")
    return s


def _run_enum(m, table, mode, viol, unsound, stats, sample=None):
    """One enumeration of model m under the solver behaviour currently configured in
    SIM; checks every clause that needs no second run.  Returns the yield list."""
    M, B, bnames, P, pnames, E, o_abs, one = _build(m)
    detail = {"mode": mode, "model": m}
    allnames = bnames + pnames + (["ONE"] if one is not None else [])
    if len(set(allnames)) != len(allnames):
        viol.append({"clause": "names do not identify the variables one to one",
                     "detail": dict(detail, names=allnames)})
        return None
    if len({n.replace(".", "").replace("-", "m").replace("#", "__").replace(">", "")[:200]
            for n in m["bins"]}) < len(m["bins"]):
        stats["name_collisions"] += 1
    best = min(table.values()) if table else None
    ys = []
    solve0 = SIM.solve_index
    seen = set()
    prev = None
    name_to_idx = {n: j for j, n in enumerate(bnames)}
    first_obj = None
    faulted = bool(SIM.faults)
    for status, obj, names in M.solutions(m["gap"], limit=m["limit"]):
        k = len(ys)
        rec = SIM.solves[-1]
        ys.append([status, round(obj, 6), list(names)])
        d = dict(detail, index=k, yielded=[status, obj, list(names)])
        # nothing may be yielded from a solve that did not end OPTIMAL and verified
        if rec["ret"] != 0 or rec.get("fault") == "verify":
            viol.append({"clause": "solution yielded from a solve that was not optimal and verified", "detail": d})
            continue
        if status != "optimal":
            viol.append({"clause": "yielded status is not optimal", "detail": d})
        nset = set(names)
        if len(nset) != len(names) or not nset <= set(allnames):
            viol.append({"clause": "yielded names are not distinct known variables", "detail": d})
            continue
        b = tuple(1 if bnames[j] in nset else 0 for j in range(len(bnames)))
        if b not in table:
            viol.append({"clause": "yielded solution is infeasible", "detail": d})
            continue
        want = _active_names(m, b, bnames, pnames, one)
        stats["helper_checks"] += len(pnames)
        if nset != want:
            viol.append({"clause": "product variable differs from the AND of its factors",
                         "detail": dict(d, expected=sorted(want))})
        if abs(obj - table[b]) > TOL:
            viol.append({"clause": "reported objective differs from the true objective of the yielded solution",
                         "detail": dict(d, true=table[b])})
        # helper exactness at the optimum in place: |.| helper equals the weighted sum of absolute values
        truabs = sum(e["w"] * abs(e["target"] - sum(c * b[int(j)] for j, c in e["coefs"].items()))
                     for e in m["errs"])
        stats["helper_checks"] += 1
        if not m.get("zint") and not m.get("err_bounds") and abs(M.getValue(o_abs) - truabs) > TOL:
            viol.append({"clause": "absolute-value helper differs from the sum of absolute values at an optimum",
                         "detail": dict(d, helper=M.getValue(o_abs), true=truabs)})
        for j, v in enumerate(B):
            if M.getValue(v) != bool(b[j]) or not isinstance(M.getValue(v), bool):
                viol.append({"clause": "typed read-back of a binary disagrees with the yielded names",
                             "detail": dict(d, var=bnames[j], got=repr(M.getValue(v)))})
                break
        if k == 0:
            first_obj = obj
            if abs(table[b] - best) > TOL:
                viol.append({"clause": "first yielded solution is not a global optimum",
                             "detail": dict(d, optimum=best)})
                if mode != "plain" and not faulted:
                    unsound.append(dict(d, optimum=best, note="adversarial answer not optimal"))
        if first_obj is not None and table[b] > (1 + m["gap"]) * first_obj + TOL + 1e-5:
            viol.append({"clause": "yielded solution lies outside the gap", "detail": dict(d, first=first_obj)})
        key = tuple(sorted(nset))
        if key in seen:
            viol.append({"clause": "binary assignment yielded twice", "detail": d})
            break  # an enumeration that repeats itself need not end
        seen.add(key)
        if prev is not None and obj < prev - TOL:
            viol.append({"clause": "objectives not in non-decreasing order", "detail": dict(d, prev=prev)})
        prev = obj
        stats["vertices"].add((canon.digest(m)[:10], canon.digest(sorted(nset))[:10]))
    nsolves = SIM.solve_index - solve0
    if not faulted:
        if table and not ys:
            viol.append({"clause": "feasible model yielded nothing", "detail": dict(detail, optimum=best)})
        if not table and ys:
            viol.append({"clause": "infeasible model yielded a solution", "detail": detail})
        # completeness: every feasible within-gap assignment not yielded contains the active set of
        # a yielded solution that is no worse (outside a 1e-4 band around the gap boundary)
        if m["limit"] is None and ys and best is not None:
            ub = (1 + m["gap"]) * best
            ysets = [(set(y[2]), y[1]) for y in ys]
            for b, o in table.items():
                # aldy's own rule keeps everything up to ub + 1e-5; exact ties with the optimum (gap 0)
                # are therefore well inside.  Only (ub + 1e-6, ...] is left undecided.
                if o > ub + 1e-6:
                    continue
                act = _active_names(m, b, bnames, pnames, one)
                if any(act == s for s, _ in ysets):
                    continue
                if not any(s <= act and yo <= o + TOL for s, yo in ysets):
                    viol.append({"clause": "within-gap assignment neither yielded nor covered by a yielded subset",
                                 "detail": dict(detail, assignment=list(b), objective=o, optimum=best,
                                                yields=ys)})
                    break
    if sample is not None and not sample:
        sample.append(ys[:3])
    if len(ys) >= 2:
        stats["multi_yield"] += 1
    return ys, nsolves


def _post_judge(m, table, bnames, pnames, one, ys, viol, mode):
    """Clauses that only need the list of yields (used by the two-phase and interleaved modes)."""
    detail = {"mode": mode, "model": m}
    allnames = bnames + pnames + (["ONE"] if one is not None else [])
    if not table:
        if ys:
            viol.append({"clause": "infeasible model yielded a solution", "detail": detail})
        return
    best = min(table.values())
    if not ys:
        viol.append({"clause": "feasible model yielded nothing", "detail": dict(detail, optimum=best)})
        return
    seen, prev, first = set(), None, None
    for k, (status, obj, names) in enumerate(ys):
        d = dict(detail, index=k, yielded=[status, obj, list(names)])
        nset = set(names)
        if len(nset) != len(names) or not nset <= set(allnames):
            viol.append({"clause": "yielded names are not distinct known variables", "detail": d})
            return
        b = tuple(1 if bnames[j] in nset else 0 for j in range(len(bnames)))
        if b not in table:
            viol.append({"clause": "yielded solution is infeasible", "detail": d})
            return
        if nset != _active_names(m, b, bnames, pnames, one):
            viol.append({"clause": "product variable differs from the AND of its factors", "detail": d})
        if abs(obj - table[b]) > TOL:
            viol.append({"clause": "reported objective differs from the true objective of the yielded solution",
                         "detail": dict(d, true=table[b])})
        if k == 0:
            first = obj
            if abs(table[b] - best) > TOL:
                viol.append({"clause": "first yielded solution is not a global optimum", "detail": dict(d, optimum=best)})
        if table[b] > (1 + m["gap"]) * first + TOL + 1e-5:
            viol.append({"clause": "yielded solution lies outside the gap", "detail": dict(d, first=first)})
        key = tuple(sorted(nset))
        if key in seen:
            viol.append({"clause": "binary assignment yielded twice", "detail": d})
        seen.add(key)
        if prev is not None and obj < prev - TOL:
            viol.append({"clause": "objectives not in non-decreasing order", "detail": dict(d, prev=prev)})
        prev = obj
    if m["limit"] is None:
        ub = (1 + m["gap"]) * best
        ysets = [(set(y[2]), y[1]) for y in ys]
        for b, o in table.items():
            if o > ub + 1e-6:
                continue
            act = _active_names(m, b, bnames, pnames, one)
            if any(act == s_ for s_, _ in ysets):
                continue
            if not any(s_ <= act and yo <= o + TOL for s_, yo in ysets):
                viol.append({"clause": "within-gap assignment neither yielded nor covered by a yielded subset",
                             "detail": dict(detail, assignment=list(b), objective=o, optimum=best, yields=ys[:6])})
                break


def _drain(gen, cap=3000):
    """Consume an enumeration; an enumeration that repeats itself need not end: stop at the first repeat."""
    out, seen = [], set()
    for st, obj, names in gen:
        key = tuple(sorted(names))
        out.append([st, round(obj, 6), list(names)])
        if key in seen or len(out) >= cap:
            break
        seen.add(key)
    return out


def _two_phase(m, viol, stats):
    """The model keeps being built after a first (limit=1) enumeration: one more binary, tied to an
    existing one, with its own penalty; then it is enumerated again.  Judged against the final model."""
    import aldy.lpinterface as lpi

    if m["prods"] or len(m["bins"]) < 2 or len(set(m["bins"])) != len(m["bins"]) or m.get("lin_const") or m.get("zint") \
            or m.get("abs_twice") or m.get("err_bounds") or m.get("empty_group"):
        return 0
    base = dict(m, bins=m["bins"][:-1])
    last = len(m["bins"]) - 1
    # the last binary only appears in its own constraints: B_0 <= B_last, penalty on B_last
    final = dict(m, errs=[dict(e, coefs={k: v for k, v in e["coefs"].items() if int(k) != last}) for e in m["errs"]],
                 card=[c for c in m["card"] if last not in c["idx"]],
                 order=[o for o in m["order"] if last not in o] + [[0, last]],
                 lin=dict({k: v for k, v in m["lin"].items() if int(k) != last}, **{str(last): 0.07}), limit=None)
    base = dict(final, bins=final["bins"][:-1], order=[o for o in final["order"] if last not in o],
                lin={k: v for k, v in final["lin"].items() if int(k) != last})
    SIM.reset({"max_solves": 4000, "max_wall": 90.0, "monitor": False})
    M, B, bnames, P, pnames, E, o_abs, one = _build(base)
    first = list(M.solutions(base["gap"], limit=1))
    # continue building
    R = M.addVar(vtype="B", name=final["bins"][last])
    M.addConstr(B[0] <= R, name="CLATE")
    M.setObjective(M.objective + 0.07 * R)
    ys = _drain(M.solutions(final["gap"]))
    _post_judge(final, _reference(final), bnames + [M.varName(R)], pnames, one, ys, viol, "two_phase")
    return 1


def _interleaved(m1, m2, viol, stats):
    """Two enumerations alive at the same time, consumed in lock-step."""
    SIM.reset({"max_solves": 4000, "max_wall": 90.0, "monitor": False})
    A = _build(m1)
    Bm = _build(m2)
    g1 = A[0].solutions(m1["gap"], limit=m1["limit"])
    g2 = Bm[0].solutions(m2["gap"], limit=m2["limit"])
    y1, y2 = [], []
    done1 = done2 = False
    while not (done1 and done2):
        if not done1:
            try:
                st, obj, names = next(g1)
                y1.append([st, round(obj, 6), list(names)])
                if y1.count(y1[-1]) > 1 or len(y1) > 3000:
                    done1 = True  # (repeats itself: see _drain)
            except StopIteration:
                done1 = True
        if not done2:
            try:
                st, obj, names = next(g2)
                y2.append([st, round(obj, 6), list(names)])
                if y2.count(y2[-1]) > 1 or len(y2) > 3000:
                    done2 = True
            except StopIteration:
                done2 = True
    _post_judge(m1, _reference(m1), A[2], A[4], A[7], y1, viol, "interleaved")
    _post_judge(m2, _reference(m2), Bm[2], Bm[4], Bm[7], y2, viol, "interleaved")
    return 2


def _w2(viol, stats):
    """Exhaustive: prod over 1-4 factors (all assignments, helper pushed both ways) and
    abssum over 1-4 terms (all sign patterns)."""
    import aldy.lpinterface as lpi

    n = 0
    for k in range(1, 5):
        for vals in itertools.product((0, 1), repeat=k):
            for direction in ("min", "max", "min-continuous", "max-continuous"):
                M = lpi.model("P", "cbc")
                F = [M.addVar(vtype="B", name=f"F_{i}") for i in range(k)]
                for f, v in zip(F, vals):
                    M.addConstr(f <= v, name="FIX")
                    M.addConstr(f >= v, name="FIX")
                # (the helper is exact for a product variable that is merely bounded to [0, 1] as well)
                rv = M.addVar(vtype="B", name="RES") if "-" not in direction else M.addVar(lb=0, ub=1, name="RES")
                res = M.prod(rv, F)
                direction = direction.split("-")[0]
                M.setObjective(res, method=direction)
                st, obj = M.solve()
                n += 1
                if st != "optimal" or abs(float(M.getValue(res)) - float(all(vals))) > 1e-6:
                    viol.append({"clause": "product variable differs from the AND of its factors",
                                 "detail": {"mode": "w2", "factors": list(vals), "direction": direction,
                                            "got": repr(M.getValue(res)), "status": st}})
        for signs in itertools.product((-1, 0, 1), repeat=k):
            mags = [0.5 + 0.75 * i for i in range(k)]
            ws = [1, 2, 0.5, 1.5][:k]
            M = lpi.model("A", "cbc")
            E = [M.addVar(lb=-M.INF, ub=M.INF, name=f"E_{i}") for i in range(k)]
            for e, s, mg in zip(E, signs, mags):
                M.addConstr(e <= s * mg, name="FIX")
                M.addConstr(e >= s * mg, name="FIX")
            o = M.abssum(E, coeffs={M.varName(e): w for e, w in zip(E, ws)})
            M.setObjective(o)
            st, obj = M.solve()
            n += 1
            true = sum(w * abs(s * mg) for w, s, mg in zip(ws, signs, mags))
            if st != "optimal" or abs(obj - true) > 1e-6 or abs(M.getValue(o) - true) > 1e-6:
                viol.append({"clause": "absolute-value helper differs from the sum of absolute values at an optimum",
                             "detail": {"mode": "w2", "signs": list(signs), "got": obj, "true": true}})
    stats["w2"] += n


def _w3(seg, viol, stats):
    """Models aldy itself builds: stage calls on the shipped toy gene with random
    evidence, under the adversary, monitored at the seam and at solutions()."""
    import collections

    from aldy.coverage import Coverage
    from aldy.gene import Gene, Mutation
    from aldy.major import estimate_major
    from aldy.minor import estimate_minor
    from aldy.cn import solve_cn_model
    from aldy.profile import Profile
    from aldy.solutions import CNSolution
    from aldy.common import script_path

    rng = random.Random(seg["w3_seed"])
    gene = Gene(script_path("aldy.tests.resources/toy.yml"), genome="hg19")
    for rep in range(3):
        SIM.reset({"max_solves": 4000, "max_wall": 90.0, "adversary": rng.randint(0, 10**9), "monitor": True})
        prof = Profile("test", gap=rng.choice([0, 0.1, 0.5]))
        # structure stage
        cnv = {r: (round(rng.choice([0, 1, 2, 2, 3]) + rng.uniform(-0.4, 0.4), 2),
                   round(2 + rng.uniform(-0.4, 0.4), 2)) for r in gene.unique_regions}
        try:
            cns = solve_cn_model(gene, prof, gene.cn_configs, 4, cnv, "cbc")
        except Exception as ex:
            cns = []
        cn = rng.choice(cns) if cns and rng.random() < 0.5 else CNSolution(gene, 0, ["1", "1"])
        data = collections.defaultdict(dict)
        for (pos, op) in list(gene.mutations):
            tot = 20 * max(1, sum(cn.solution.values()))
            c = rng.choice([0, 0, 10, 20, 30])
            data[pos]["_"] = [(60, 60)] * max(0, tot - c)
            if c:
                data[pos][op] = [(60, 60)] * c
        cov = Coverage(gene, prof, None, data, None, {})
        try:
            majors = estimate_major(gene, cov, cn, "cbc")
            if majors:
                estimate_minor(gene, cov, majors[:2], "cbc")
        except Exception:
            pass
        stats["w3_models"] += SIM.models
        for f in SIM.monitor_failures:
            viol.append({"clause": f["clause"], "detail": dict(f, mode="w3")})
        for log in SIM.yields:
            stats["w3_yields"] += len(log["items"])
            objs = [it[1] for it in log["items"]]
            keys = [tuple(it[2]) for it in log["items"]]
            if any(b < a - TOL for a, b in zip(objs, objs[1:])):
                viol.append({"clause": "objectives not in non-decreasing order",
                             "detail": {"mode": "w3", "model": log["model"], "objs": objs}})
            if len(set(keys)) != len(keys):
                viol.append({"clause": "binary assignment yielded twice",
                             "detail": {"mode": "w3", "model": log["model"]}})
            if objs and any(o > (1 + log["gap"]) * objs[0] + TOL + 1e-5 for o in objs):
                viol.append({"clause": "yielded solution lies outside the gap",
                             "detail": {"mode": "w3", "model": log["model"], "objs": objs, "gap": log["gap"]}})
            for it in log["items"]:
                rec = next((s for s in SIM.solves if s["i"] == it[3]), None)
                if rec is None or rec["ret"] != 0:
                    viol.append({"clause": "solution yielded from a solve that was not optimal and verified",
                                 "detail": {"mode": "w3", "model": log["model"]}})
        SIM.yields.clear()


def _guard(viol, mode, fn, *a):
    """Run one unit of work; an exception that comes out of aldy's own code (the enumeration, a model
    helper, a stage function) is a violation - the statement has no clause under which solving a well-formed
    model ends in an exception - while an error of the harness stays a harness error."""
    import traceback

    try:
        return fn(*a)
    except Exception as ex:
        if type(ex).__name__ in ("HarnessError",):
            raise
        files = [f.filename for f in traceback.extract_tb(ex.__traceback__)]
        inner = [f for f in files if "/aldysim/" not in f or f.endswith("seams.py")]
        in_aldy = any(os.sep + "aldy" + os.sep in f and "/aldysim/" not in f for f in files)
        last_own = max((i for i, f in enumerate(files) if "/aldysim/checks/" in f), default=-1)
        # raised below aldy's frames (aldy called from the check, the error surfaced inside / beneath aldy)
        if in_aldy and any(os.sep + "aldy" + os.sep in f and "/aldysim/" not in f for f in files[last_own + 1:]):
            viol.append({"clause": "solving a model built through the interface ended in an exception",
                         "detail": {"mode": mode, "type": type(ex).__name__, "msg": str(ex)[:200],
                                    "where": [os.path.basename(f) for f in inner[-4:]]}})
            return None
        raise


def run_segment(seg):
    viol, unsound = [], []
    stats = {"models": 0, "fired": {}, "fault_points": [], "vertices": set(), "ties": 0, "truncated": 0,
             "w2": 0, "w3_models": 0, "w3_yields": 0, "multi_yield": 0, "name_collisions": 0, "shapes": [],
             "helper_checks": 0}
    runs = 0
    sample = []

    def merge_fired():
        for k, v in SIM.fired.items():
            stats["fired"][k] = stats["fired"].get(k, 0) + v

    for m in seg["models"]:
        table = _reference(m)
        stats["models"] += 1
        if len(table) >= 2:
            stats["shapes"].append(canon.digest(m)[:12])
        if table:
            best = min(table.values())
            if sum(1 for o in table.values() if abs(o - best) < 1e-9) > 1:
                stats["ties"] += 1
        # --- fault-free reference configuration: plain CBC
        SIM.reset({"max_solves": 4000, "max_wall": 240.0 if m.get("long") else 90.0, "monitor": True})
        old_limit = sys.getrecursionlimit()
        if m.get("headroom"):
            depth, f = 0, sys._getframe()
            while f is not None:
                depth, f = depth + 1, f.f_back
            sys.setrecursionlimit(depth + m["headroom"])
            SIM.fire("stack_headroom_limited")
        try:
            r = _guard(viol, "plain", _run_enum, m, table, "plain", viol, unsound, stats, sample)
        finally:
            sys.setrecursionlimit(old_limit)
        merge_fired()
        runs += 1
        if r is None:
            continue
        plain, nsolves = r
        for f in SIM.monitor_failures:
            viol.append({"clause": f["clause"], "detail": dict(f, mode="plain", model=m)})
        if m.get("long"):
            stats["long_enumerations"] = max(stats.get("long_enumerations", 0), len(plain))
            continue  # (one solve per solution: the other solver behaviours are exercised on the small models)
        # --- adversarial vertex choice
        for a in seg["advs"]:
            SIM.reset({"max_solves": 4000, "max_wall": 90.0, "adversary": a, "monitor": True})
            _guard(viol, "adversary", _run_enum, m, table, "adversary", viol, unsound, stats)
            merge_fired()
            runs += 1
        # --- integrality jitter: the yielded names must not change
        SIM.reset({"max_solves": 4000, "max_wall": 90.0, "jitter": seg["jitter"], "monitor": True})
        r = _guard(viol, "jitter", _run_enum, m, table, "jitter", viol, unsound, stats)
        merge_fired()
        runs += 1
        if r and [y[2] for y in r[0]] != [y[2] for y in plain]:
            viol.append({"clause": "integrality jitter changes the yielded names",
                         "detail": {"mode": "jitter", "model": m, "plain": plain, "jitter": r[0]}})
        # --- fault enumeration: every kind at every solve index of the enumeration
        for k in range(min(nsolves, 12)):
            for kind in FAULT_KINDS:
                SIM.reset({"max_solves": 4000, "max_wall": 90.0, "faults": [{"at": k, "kind": kind, "seed": k}], "monitor": False})
                r = _guard(viol, f"fault:{kind}", _run_enum, m, table, f"fault:{kind}", viol, unsound, stats)
                merge_fired()
                runs += 1
                stats["fault_points"].append((kind, min(k, 6)))
                if r is None:
                    continue
                ys = r[0]
                # a fault may only truncate: what was yielded before is the fault-free prefix
                if ys != plain[:k]:
                    viol.append({"clause": "fault at solve k: yields differ from the fault-free prefix",
                                 "detail": {"mode": f"fault:{kind}", "k": k, "model": m, "got": ys,
                                            "plain": plain}})
                if len(ys) < len(plain):
                    stats["truncated"] += 1
    # the interface used the way a library user may use it: building on after an enumeration, and two
    # enumerations alive at once
    ok_models = [m for m in seg["models"] if len(set(m["bins"])) == len(m["bins"])]
    for m in ok_models[:4]:
        runs += _guard(viol, "two_phase", _two_phase, m, viol, stats) or 0
    for m1, m2 in zip(ok_models[0::2], ok_models[1::2]):
        runs += _guard(viol, "interleaved", _interleaved, m1, m2, viol, stats) or 0
    if seg.get("w2"):
        SIM.reset({"max_solves": 4000, "max_wall": 90.0, "monitor": False})
        _guard(viol, "w2", _w2, viol, stats)
        runs += 1
    if seg.get("w3") and not viol:
        # (aldy's own stage loops are driven here; with a verdict already in hand they are not needed, and an
        # enumeration that never ends would only run into the workload bound)
        _guard(viol, "w3", _w3, seg, viol, stats)
        merge_fired()
        runs += 3
    stats["vertices"] = sorted(stats["vertices"])
    return {"violations": viol[:20], "unsound": unsound[:3], "stats": stats, "runs": runs,
            "sample_yields": sample[0] if sample else None}

"""C10 - reported solutions are the best candidates and are consistent chains.

Simulator-owned dimension: solver outcomes that empty or truncate a stage, injected
at every solve index of a genotype() call (fault enumeration), the solver's choice
of optimum (adversary) and hash order.  Oracle: the statement's selection rule
recomputed over the recorded history of stage calls, chain consistency of every
reported solution, and the error / output behaviour when a stage returns nothing.
"""

import copy
import os
import random
from collections import Counter

from .. import canon
from .. import ops as O
from .. import workload as WL
from ..seams import SIM

ID = "C10"
LEVEL = "fault_enumeration"
SEGMENT_TIMEOUT = 180
TIERS = {
    "quick": dict(plans=192, budget_s=75, workloads=12, chunks=8, det_plans=2),
    "thorough": dict(plans=12000, budget_s=1200, workloads=300, chunks=20, det_plans=8, always_selftest=True),
}
FAULT_KINDS = ["infeasible", "abnormal", "not_solved", "incumbent", "verify"]
MAX_K = 40
PREC = 1e-2  # aldy.common.SOLUTION_PRECISION
BAND = 1e-4


def gen_workload(seed, wi):
    rng = random.Random(f"C10:{seed}:w:{wi}")
    if wi % 4 == 3:
        w = _novel_near_tie(rng)
        if w:
            return w
    world = WL.one_gene_world(rng, small=True)
    g = world["genes"][0]
    smp = {"name": "s0", "genes": {g["name"]: WL.gen_units(rng, g)}, "phase_seed": rng.randint(0, 999),
           "paired": rng.random() < 0.4}
    # depth noise so that several structures compete
    thin = []
    if g["pregions"] and rng.random() < 0.7:
        for _ in range(rng.randint(1, 2)):
            thin.append({"gene": g["name"], "region": rng.choice([r[0] for r in g["regions"]][1:-1]),
                         "p": rng.choice([0.2, 0.35, 0.5]), "which": rng.choice(["gene", "pseudo"])})
    smp["thin"] = thin
    # a fractional extra copy makes two structures nearly tie
    units = smp["genes"][g["name"]]
    if rng.random() < 0.65 and not any(u["type"] == "extra" for u in units) and not all(
            u["type"] == "deletion" for u in units):
        normal = [a["name"] for a in g["alleles"] if a["kind"] == "normal"]
        units.append({"type": "extra", "allele": rng.choice(normal), "depth": rng.choice([0.4, 0.5, 0.6])})
    params = {"gap": rng.choice([0, 0.1, 0.3, 0.5, 1.0, 1.0, 2.0]), "max_minor_solutions": rng.choice([1, 1, 2])}
    if g["pregions"] and wi % 3 == 0:
        # two structures that explain the depths almost equally well, with major solutions that fit both:
        # a fractional extra copy of the allele the sample already carries, and a gap that admits both
        base = rng.choice([a["name"] for a in g["alleles"] if a["kind"] == "normal"])
        other = rng.choice([a["name"] for a in g["alleles"] if a["kind"] == "normal"])
        smp["genes"][g["name"]] = [{"type": "normal", "allele": base}, {"type": "normal", "allele": other},
                                   {"type": "extra", "allele": base, "depth": rng.choice([0.45, 0.5, 0.55])}]
        smp["thin"] = []
        params = {"gap": rng.choice([0.5, 1.0, 1.0, 2.0]), "max_minor_solutions": 1}
    if wi % 4 == 1:
        # a common tandem (A+B) in the catalogue and a sample with one A and two B copies: the diplotype
        # heuristic pairs A with one B and has to keep the other B
        fams = {}
        for a in g["alleles"]:
            if a["kind"] == "normal":
                fams.setdefault(a["name"].split(".")[0], []).append(a["name"])
        if len(fams) >= 2:
            fb = max(sorted(fams), key=lambda k: len(fams[k]))
            fa = rng.choice([k for k in sorted(fams) if k != fb])
            g["tandems"] = [[fa, fb]]
            smp["genes"][g["name"]] = [{"type": "normal", "allele": fams[fa][0]},
                                       {"type": "normal", "allele": fams[fb][0]},
                                       {"type": "extra", "allele": fams[fb][-1]}]
            smp["thin"] = []
    return {"world": world, "samples": {"s0": smp}, "params": params, "build": "hg19",
            "out": rng.choice(["aldy", "vcf", "simple", "simple", "none"]),
            "hashseed": rng.choice([0, 1, 2, 3]),
            "adversary": rng.choice([None, None, rng.randint(0, 10**9)]),
            # report=True is what the command line passes: the summary of the results is printed as well
            "report": rng.random() < 0.5}


def _novel_near_tie(rng):
    """Large scores and a near-tie: one copy carries a core variant that no allele has on its own (it can
    only be novel: +21.1 on every candidate) and 51-56 % of that copy's reads show the single core variant
    of a catalogued allele X, so `*1/*X` and `*1/*1` differ by a few hundredths at a score above 21."""
    world = WL.one_gene_world(rng, small=True, orphan_core="always", ambiguous=False, n_variants=8, n_major=3,
                              lfusion=False, rfusion=False, tandem=False, edge_variant=None,
                              kinds=["snp", "snp", "snp", "snp", "snp", "del"])
    g = world["genes"][0]
    V = g["variants"]
    orphan = [a for a in g["alleles"] if a["kind"] == "normal" and len(a["vars"]) == 2
              and all(V[v]["func"] and V[v]["kind"] == "snp" and sum(1 for b in g["alleles"] if v in b["vars"]) == 1
                      for v in a["vars"])]
    single = [a for a in g["alleles"] if a["kind"] == "normal" and len(a["vars"]) == 1 and V[a["vars"][0]]["func"]
              and V[a["vars"][0]]["kind"] == "snp"]
    if not orphan or not single:
        return None
    x = rng.choice(single)
    smp = {"name": "s0", "phase_seed": rng.randint(0, 999), "paired": False, "thin": [],
           "genes": {g["name"]: [
               {"type": "normal", "allele": "1.001",
                "noise": [{"vid": orphan[0]["vars"][0], "frac": 1.0},
                          {"vid": x["vars"][0], "frac": rng.choice([0.51, 0.52, 0.53, 0.54, 0.56])}]},
               {"type": "normal", "allele": "1.001"}]}}
    return {"world": world, "samples": {"s0": smp}, "params": {"gap": rng.choice([2.0, 3.0]), "max_minor_solutions": 1},
            "build": "hg19", "out": rng.choice(["aldy", "vcf", "simple", "none"]), "hashseed": rng.choice([0, 1, 2, 3]),
            "adversary": None}


SCRIPT_MODES = ["exact_tie", "near_gap", "near_gap", "large", "large", "spread", "zero_best"]


def gen_plan(rng, tier, i, seed):
    cfg = TIERS[tier]
    scripted, i = i % 2 == 1, i // 2
    wi = i % cfg["workloads"]
    chunk = (i // cfg["workloads"]) % cfg["chunks"]
    w = gen_workload(seed, wi)
    if scripted:
        # scripted stages: the three model solvers are played by the simulator (well-formed candidates
        # with plan-chosen scores), the real genotype() / estimate_*() code selects among them
        w = copy.deepcopy(w)
        w["adversary"] = None
        w["params"] = {"gap": rng.choice([0, 0.1, 0.1, 0.3, 0.3, 0.5, 1.0]),
                       "max_minor_solutions": rng.choice([1, 2, 3])}
        w["out"] = rng.choice(["aldy", "vcf", "simple", "none"])
        w["hashseed"] = rng.choice([0, 1, 2, 3])
        w["report"] = rng.random() < 0.5
        w["script"] = {"seed": rng.randint(0, 10**9), "mode": rng.choice(SCRIPT_MODES),
                       "n_cn": rng.choice([0, 1, 1, 2, 2, 2, 3, 3]), "empty_major": rng.random() < 0.12,
                       "empty_minor": rng.random() < 0.12}
        return {"w": w, "faults": []}
    pts = [(k, kind) for k in range(MAX_K) for kind in FAULT_KINDS]
    mine = [list(p) for n, p in enumerate(pts) if n % cfg["chunks"] == chunk]
    return {"w": w, "faults": mine}


def _materialise(runner, w):
    wd = canon.digest([w["world"], w["samples"], w["build"]])

    def make():
        d = os.path.join(runner.root, f"world-{wd}")
        return d, runner.segment({"kind": "materialise", "hashseed": 0, "world": w["world"],
                                  "samples": w["samples"], "build": w["build"], "dir": d})

    return wd, runner.memoised(("world", wd), make)


def _seg(w, worlddir, man, rundir, sim, tag):
    return {"kind": "run", "hashseed": w["hashseed"], "worlddir": worlddir, "man": man, "rundir": rundir,
            "params": w["params"], "out": w["out"], "build": w["build"], "sim": sim, "tag": tag,
            "gene": w["world"]["genes"][0]["name"], "script": w.get("script"), "report": bool(w.get("report"))}


def execute(plan, runner, rundir):
    w = plan["w"]
    wd, (worlddir, man) = _materialise(runner, w)
    base = {"adversary": w["adversary"]} if w["adversary"] is not None else {}

    def pilot():
        rd = runner.new_dir("pilot")
        try:
            return runner.segment(_seg(w, worlddir, man, rd, dict(base), "p"))
        finally:
            import shutil

            shutil.rmtree(rd, ignore_errors=True)

    pil = runner.memoised(("pilot", wd, canon.digest([w["params"], w["out"], w["hashseed"], w["adversary"],
                                                       w.get("script"), w.get("report")])), pilot)
    n = pil["solves"]
    runs = []
    for k, kind in plan["faults"]:
        if k >= n:
            continue
        sim = dict(base, faults=[{"at": k, "kind": kind, "seed": k}])
        runs.append({"k": k, "kind": kind, "res": runner.segment(_seg(w, worlddir, man, rundir, sim, f"f{k}{kind}"))})
    return {"pilot": pil, "runs": runs}


def _v(clause, **detail):
    return {"clause": clause, "detail": detail}


def judge(plan, outcome):
    vs = []
    pil = outcome["pilot"]
    for v in pil["violations"]:
        vs.append(_v(v["clause"], run="fault-free", **v["detail"]))
    pstages = pil["stages"]
    for run in outcome["runs"]:
        r = run["res"]
        where = {"run": f"fault {run['kind']} at solve {run['k']}", "fired": r["fired"]}
        for v in r["violations"]:
            vs.append(_v(v["clause"], **where, **v["detail"]))
        if not r["fired"]:
            # fault did not fire: the run must equal the pilot exactly
            if canon.strip_scores(r["result"]) != canon.strip_scores(pil["result"]) or r["output"] != pil["output"]:
                vs.append(_v("run without effective fault differs from the fault-free run", **where))
            continue
        # (iv) a fault may only shorten the stage it hits
        for st in r["stages"]:
            if not (st["solve_from"] <= run["k"] < st["solve_to"]):
                continue
            if st["stage"] == "estimate_minor":
                continue
            ref = next((p for p in pstages if p["stage"] == st["stage"] and p["key"] == st["key"]), None)
            if ref is None:
                continue
            have = Counter(canon.jdump(canon.strip_scores(x)) for x in st["ret"])
            want = Counter(canon.jdump(canon.strip_scores(x)) for x in ref["ret"])
            if have - want:
                vs.append(_v("faulted stage returned something the fault-free stage did not return",
                             stage=st["stage"], extra=list((have - want))[:2], **where))
    return vs


def signature(v):
    return {"clause": v["clause"]}


def shrink(plan):
    if len(plan["faults"]) > 1:
        for f in plan["faults"]:
            p = copy.deepcopy(plan)
            p["faults"] = [f]
            yield p
    w = plan["w"]
    if w["adversary"] is not None:
        p = copy.deepcopy(plan)
        p["w"]["adversary"] = None
        yield p
    if w["hashseed"] != 0:
        p = copy.deepcopy(plan)
        p["w"]["hashseed"] = 0
        yield p
    if w["out"] != "none":
        p = copy.deepcopy(plan)
        p["w"]["out"] = "none"
        yield p
    smp = w["samples"]["s0"]
    if smp.get("thin"):
        p = copy.deepcopy(plan)
        p["w"]["samples"]["s0"]["thin"] = []
        yield p
    if plan["faults"]:
        p = copy.deepcopy(plan)
        p["faults"] = []
        yield p


def new_stats():
    return {"plans": 0, "runs": 0, "fired": {}, "points": set(), "stage_points": set(), "empty_stage": {},
            "ge2_structures": 0, "ge2_majors": 0, "ge2_reported": 0, "workloads": set(), "truncated": 0,
            "adv_moved": 0, "errors": 0, "selection_checked": 0, "chains_checked": 0}


def count_evaluations(plan, out):
    return 1 + len(out["runs"])


def update_stats(acc, plan, out):
    acc["plans"] += 1
    acc["workloads"].add(canon.digest(plan["w"])[:10])
    for tag, r, k, kind in [("pilot", out["pilot"], None, None)] + [("f", x["res"], x["k"], x["kind"]) for x in out["runs"]]:
        acc["runs"] += 1
        for fk, n in r["fired"].items():
            acc["fired"][fk] = acc["fired"].get(fk, 0) + n
        p = r["probes"]
        acc["ge2_structures"] += p["ge2_structures"]
        acc["ge2_majors"] += p["ge2_majors"]
        acc["ge2_reported"] += p["ge2_reported"]
        acc["selection_checked"] += p["selection_checked"]
        acc["chains_checked"] += p["chains_checked"]
        acc["minor_ge2_structs"] = acc.get("minor_ge2_structs", 0) + p.get("minor_stage_ge2_structures", 0)
        acc["order_informative"] = acc.get("order_informative", 0) + p.get("order_informative", 0)
        if r.get("script"):
            acc.setdefault("scripted", {})
            acc["scripted"][r["script"]] = acc["scripted"].get(r["script"], 0) + 1
        if r["exc"]:
            acc["errors"] += 1
        for st in p["empty_stages"]:
            acc["empty_stage"][st] = acc["empty_stage"].get(st, 0) + 1
        if k is not None and r["fired"]:
            acc["points"].add((canon.digest(plan["w"])[:10], k, kind))
            for st in r["stages"]:
                if st["solve_from"] <= k < st["solve_to"]:
                    acc["stage_points"].add((st["stage"], min(k - st["solve_from"], 5), kind))
                    if st["stage"] != "estimate_minor":
                        ref = next((q for q in out["pilot"]["stages"] if q["stage"] == st["stage"] and q["key"] == st["key"]), None)
                        if ref and len(st["ret"]) < len(ref["ret"]):
                            acc["truncated"] += 1


def sample_view(plan, out):
    w = plan["w"]
    return {"sample": w["samples"]["s0"]["genes"], "thin": w["samples"]["s0"].get("thin"), "params": w["params"],
            "out": w["out"], "hashseed": w["hashseed"], "adversary": w["adversary"],
            "pilot_solves": out["pilot"]["solves"], "fault_points": [[x["k"], x["kind"]] for x in out["runs"]][:8],
            "pilot_result": canon.jdump(out["pilot"]["result"])[:500]}


def evidence(acc):
    return {
        "coverage": {
            "distinct_nontrivial": len(acc["points"]),
            "rule": "one evaluation = one genotype() call (fault-free pilot or exactly one fault kind at one solve "
                    "index) whose recorded stage history is re-evaluated against the selection rule; "
                    "distinct_nontrivial = distinct (workload, solve index, fault kind) triples whose fault actually fired",
            "plans": acc["plans"],
            "workloads": len(acc["workloads"]),
            "runs": acc["runs"],
            "fault_kinds_fired": acc["fired"],
            "distinct_stage_relative_fault_points": len(acc["stage_points"]),
            "probes": {
                "runs_with_ge2_structures": acc["ge2_structures"],
                "runs_with_ge2_major_solutions": acc["ge2_majors"],
                "runs_with_ge2_reported_solutions": acc["ge2_reported"],
                "empty_stage_hits": acc["empty_stage"],
                "stage_returns_truncated_by_fault": acc["truncated"],
                "runs_ending_in_reported_error": acc["errors"],
                "selection_rule_recomputations": acc["selection_checked"],
                "chains_checked": acc["chains_checked"],
                "minor_stage_calls_with_ge2_structures": acc.get("minor_ge2_structs", 0),
                "runs_whose_reported_list_has_distinct_scores": acc.get("order_informative", 0),
                "scripted_stage_runs_by_score_mode": acc.get("scripted", {}),
            },
            "exhaustive_over": "fault kind x solve index (first 40 solves) of every workload's genotype() call, "
                               "spread over the plans of a batch; workloads are sampled",
            "components": {
                "real": ["aldy.genotype.genotype and everything below it", "CBC (every solve real)", "pysam, indelpost"],
                "stub": ["scripted-stage plans (every other plan): solve_cn_model / solve_major_model / solve_minor_model "
                         "return simulator-made well-formed candidates with plan-chosen scores",
                         "solver proxy: status / verification faults at one solve index; optional adversarial vertex",
                         "recording wrappers around estimate_cn / estimate_major / estimate_minor"],
            },
        },
        "assumptions": [
            "the oracle recomputes the selection from the recorded stage returns; whether those returns are optimal is "
            "C02-C05's business",
            "a candidate within 1e-4 of the gap + precision boundary may or may not be reported",
            "order: scores non-decreasing at the 1e-3 granularity aldy sorts with",
        ],
    }


# ---------------------------------------------------------------------------
# child side


def _cn_key(c):
    return canon.jdump(canon.cn_solution(c)["solution"])


def _major_key(m):
    return canon.jdump([canon.cn_solution(m.cn_solution)["solution"],
                        [[a["major"], n] for a, n in canon.major_solution(m)["solution"]],
                        canon.muts(m.added)])


def _minor_key(s):
    return canon.jdump([_major_key(s.major_solution), sorted(canon.jdump(canon.solved_allele(a)) for a in s.solution)])


def _flatten(d):
    for x in d:
        if isinstance(x, (list, tuple)):
            yield from _flatten(x)
        else:
            yield x


def oracle(res_list, exc, output, out_kind, sample_name, gene_name, viol, probes):
    calls = list(SIM.stage_calls)
    cn_calls = [c for c in calls if c["stage"] == "estimate_cn"]
    mj_calls = [c for c in calls if c["stage"] == "estimate_major"]
    mi_calls = [c for c in calls if c["stage"] == "estimate_minor"]
    aldy_exc = bool(exc and exc.get("aldy"))
    if exc and not aldy_exc:
        viol.append({"clause": "genotype() ended with an unexpected (non-Aldy) exception", "detail": {"exc": exc}})
        return

    def expect_error(stage):
        probes["empty_stages"].append(stage)
        if not aldy_exc:
            viol.append({"clause": "stage returned nothing but no error was raised",
                         "detail": {"stage": stage, "result": canon.jdump(res_list)[:300]}})
        if res_list:
            viol.append({"clause": "stage returned nothing but a genotype was reported", "detail": {"stage": stage}})
        _check_empty_output(output, out_kind, sample_name, gene_name, viol, stage)

    if not cn_calls:
        # failed before the stages (e.g. coverage guards): nothing to recompute
        if res_list:
            viol.append({"clause": "result without any stage call", "detail": {}})
        return
    cn = cn_calls[0]
    if cn["exc"] is not None:
        if not aldy_exc:
            viol.append({"clause": "stage raised but genotype() did not", "detail": {"stage": "estimate_cn"}})
        return
    cn_ret, cn_sc = cn["ret"], cn["ret_scores"]
    profile = cn["args"][0][1]
    gap = profile.gap
    if len(cn_ret) >= 2:
        probes["ge2_structures"] += 1
    if not cn_ret:
        return expect_error("estimate_cn")
    min_cn = min(cn_sc)
    cn_score = {id(c): s for c, s in zip(cn_ret, cn_sc)}
    # every structure must have been handed to the major stage, once
    asked = [id(c["args"][0][2]) for c in mj_calls]
    if sorted(asked) != sorted(cn_score) and all(c["exc"] is None for c in mj_calls):
        viol.append({"clause": "major stage not called exactly once per structure solution",
                     "detail": {"structures": len(cn_ret), "calls": len(mj_calls)}})
    majors = []
    for c in mj_calls:
        if c["exc"] is not None:
            if not aldy_exc:
                viol.append({"clause": "stage raised but genotype() did not", "detail": {"stage": "estimate_major"}})
            return
        cs = cn_score.get(id(c["args"][0][2]))
        if cs is None:
            continue
        for m, raw in zip(c["ret"], c["ret_scores"]):
            majors.append((m, raw + cs - min_cn))
    if len(majors) >= 2:
        probes["ge2_majors"] += 1
    if not majors:
        return expect_error("estimate_major")
    min_major = min(s for _, s in majors)
    keep = Counter()
    maybe = Counter()
    for m, s in majors:
        d = s - min_major - gap
        if d < PREC - BAND:
            keep[_major_key(m)] += 1
        elif d < PREC + BAND:
            maybe[_major_key(m)] += 1
    if len(mi_calls) != 1:
        viol.append({"clause": "minor stage not called exactly once", "detail": {"calls": len(mi_calls)}})
        return
    mi = mi_calls[0]
    passed = Counter(_major_key(m) for m in mi["args"][0][2])
    if (keep - passed) or (passed - keep - maybe):
        viol.append({"clause": "major solutions handed to the minor stage are not those within the gap of the best",
                     "detail": {"missing": list(keep - passed)[:2], "extra": list(passed - keep - maybe)[:2],
                                "gap": gap}})
    # carried score of each passed major solution
    adj = {}
    for m, s in majors:
        adj.setdefault(_major_key(m), s)
    for m in mi["args"][0][2]:
        k = _major_key(m)
        if k in adj and abs(m.score - adj[k]) > 1e-6:
            viol.append({"clause": "major solution score does not carry the structure score difference",
                         "detail": {"major": k, "score": m.score, "expected": adj[k]}})
    if mi["exc"] is not None:
        if not aldy_exc:
            viol.append({"clause": "stage raised but genotype() did not", "detail": {"stage": "estimate_minor"}})
        return
    mret, msc = mi["ret"], mi["ret_scores"]
    # carry-over inside the minor stage: returned score = model objective + (major score - best major score)
    raw = {}
    for c in calls:
        if c["stage"] == "solve_minor_model" and c["ret"] is not None:
            for obj, sc in zip(c["ret"], c["ret_scores"]):
                raw[id(obj)] = sc
    if len({_cn_key(m.cn_solution) for m in mi["args"][0][2]}) >= 2:
        probes["minor_stage_ge2_structures"] = probes.get("minor_stage_ge2_structures", 0) + 1
    passed_scores = [m.score for m in mi["args"][0][2]]
    if passed_scores:
        base = min(passed_scores)
        for s_, sc in zip(mret, msc):
            if id(s_) in raw:
                want_sc = raw[id(s_)] + (s_.major_solution.score - base)
                if abs(want_sc - sc) > 1e-6:
                    viol.append({"clause": "refined candidate's score does not carry over the major-solution score difference",
                                 "detail": {"returned": sc, "model_objective": raw[id(s_)],
                                            "major_score": s_.major_solution.score, "best_major_score": base}})
                    break
    if not mret:
        return expect_error("estimate_minor")
    if aldy_exc:
        viol.append({"clause": "every stage returned candidates but genotype() raised",
                     "detail": {"exc": exc}})
        return
    fin = []
    for s, raw in zip(mret, msc):
        cs = s.major_solution.cn_solution.score
        fin.append((s, raw * ((cs + 1) / (min_cn + 1))))
    best = min(f for _, f in fin)
    want = Counter()
    opt = Counter()
    want_score = {}
    for s, f in fin:
        d = f - best - gap
        k = _minor_key(s)
        want_score.setdefault(k, []).append(f)
        if d < PREC - BAND:
            want[k] += 1
        elif d < PREC + BAND:
            opt[k] += 1
    got = Counter(_minor_key(s) for s in res_list)
    probes["selection_checked"] += 1
    if len(res_list) >= 2:
        probes["ge2_reported"] += 1
    if (want - got) or (got - want - opt):
        viol.append({"clause": "reported solutions are not exactly the refined candidates within the gap of the best",
                     "detail": {"missing": list(want - got)[:2], "extra": list(got - want - opt)[:2], "gap": gap,
                                "best": best, "finals": sorted(f for _, f in fin)[:6]}})
    for s in res_list:
        k = _minor_key(s)
        if k in want_score and not any(abs(s.score - f) < 1e-6 for f in want_score[k]):
            viol.append({"clause": "reported score does not carry over the structure / major score differences",
                         "detail": {"score": s.score, "expected": want_score[k]}})
    sc = [s.score for s in res_list]
    if len({int(1000 * x) for x in sc}) >= 2:
        probes["order_informative"] = probes.get("order_informative", 0) + 1
    if any(int(1000 * b) < int(1000 * a) for a, b in zip(sc, sc[1:])):
        viol.append({"clause": "reported solutions are not listed best first", "detail": {"scores": sc}})
    # (ii) chains
    gene = cn["args"][0][0]
    for s in res_list:
        probes["chains_checked"] += 1
        cnsol = s.major_solution.cn_solution
        confs = Counter(gene.alleles[a.major].cn_config for a in s.solution)
        if confs != Counter({k: v for k, v in cnsol.solution.items() if v}):
            viol.append({"clause": "alleles' structural configurations do not match the gene structure",
                         "detail": {"alleles": dict(confs), "structure": dict(cnsol.solution)}})
        mj = Counter()
        for a, n in s.major_solution.solution.items():
            mj[a.major] += n
        if Counter(a.major for a in s.solution) != mj:
            viol.append({"clause": "minor alleles do not refine the major alleles one to one",
                         "detail": {"minor": [a.minor for a in s.solution], "major": dict(mj)}})
        for a in s.solution:
            if a.minor not in gene.alleles[a.major].minors:
                viol.append({"clause": "reported minor allele is not a catalogued minor of its major allele",
                             "detail": {"major": a.major, "minor": a.minor}})
        idx = sorted(i for i in _flatten(s.get_diplotype()) if i != -1)
        if idx != list(range(len(s.solution))):
            viol.append({"clause": "diplotype does not list each allele copy exactly once",
                         "detail": {"diplotype": [list(x) for x in s.get_diplotype()], "copies": len(s.solution)}})
    _check_output(output, out_kind, sample_name, gene_name, res_list, viol)


def _check_empty_output(output, kind, sample, gene, viol, stage):
    if kind == "none":
        return
    if kind == "simple":
        if output != f"{sample}\t{gene}\t\n":
            viol.append({"clause": "simple output of a failed gene is not the empty result line",
                         "detail": {"stage": stage, "output": output[:200]}})
    else:
        rows = [l for l in (output or "").split("\n") if l and not l.startswith("#")]
        if rows:
            viol.append({"clause": "allele rows / records in the output although no genotype was reported",
                         "detail": {"stage": stage, "rows": rows[:2]}})


def _check_output(output, kind, sample, gene, res_list, viol):
    if kind == "none":
        return
    if kind == "simple":
        f = (output or "").rstrip("\n").split("\t")
        if f[:2] != [sample, gene] or len([x for x in f[2:] if x]) != 2 * len(res_list):
            viol.append({"clause": "simple output does not list the reported solutions",
                         "detail": {"output": (output or "")[:200], "solutions": len(res_list)}})
    elif kind == "aldy":
        n = sum(1 for l in (output or "").split("\n") if l.startswith("#Solution "))
        if n != len(res_list):
            viol.append({"clause": "decomposition output does not list the reported solutions",
                         "detail": {"solutions_in_file": n, "reported": len(res_list)}})
    elif kind == "vcf":
        hdr = [l for l in (output or "").split("\n") if l.startswith("#CHROM")]
        if len(hdr) != 1 or len(hdr[0].split("\t")) != 9 + len(res_list):
            viol.append({"clause": "VCF output does not have one sample column per reported solution",
                         "detail": {"header": hdr[:1], "reported": len(res_list)}})


def _install_script(script, gap):
    """Scripted stages: aldy.cn.solve_cn_model, aldy.major.solve_major_model and aldy.minor.solve_minor_model are
    played by the simulator.  They return well-formed candidates (structures over the catalogue's configurations,
    alleles of those configurations, catalogued minors, the real diplotype heuristic) whose scores follow the plan:
    exact ties, scores around the gap boundary, large scores with small differences, spreads.  Everything above
    them - estimate_cn / estimate_major / estimate_minor, the carry-over of score differences, gap filters,
    ordering, error paths and the writers - is aldy's real code."""
    import aldy.cn
    import aldy.major
    import aldy.minor
    from aldy.diplotype import estimate_diplotype
    from aldy.solutions import CNSolution, MajorSolution, MinorSolution, SolvedAllele

    seed, mode = script["seed"], script["mode"]
    r0 = random.Random(f"{seed}:base")
    base = {"exact_tie": r0.choice([0.0, 1.5, 2.0, 7.25]), "near_gap": r0.choice([0.0, 0.4, 2.0, 3.3]),
            "large": r0.choice([18.0, 35.0, 60.0]) + r0.random(), "spread": r0.uniform(0, 2),
            "zero_best": 0.0}[mode]
    counter = {"cn": 0, "major": 0, "minor": 0}

    def scores(rng, n):
        out = []
        for j in range(n):
            if mode == "exact_tie":
                d = rng.choice([0.0, 0.0, 0.0, 1e-12, -1e-12])
            elif mode == "near_gap":
                d = rng.choice([0.0, 0.0, gap / 2, gap - 0.02, gap + PREC / 2, gap + PREC - 3e-4,
                                gap + PREC + 3e-4, gap + 0.05])
            elif mode == "large":
                d = rng.choice([0.0, 0.02, 0.05, 0.11, 0.17, 0.2, 0.29, 0.45])
            elif mode == "zero_best":
                d = 0.0 if j == 0 else rng.choice([0.0, 0.004, 0.02, 0.1, 0.25, 0.7])
            else:
                d = rng.uniform(0, 1.2)
            out.append(max(0.0, base + d))
        rng.shuffle(out)
        return out

    def has_allele(gene, conf):
        return any(a.cn_config == conf for a in gene.alleles.values())

    def cn_stub(gene, profile, cn_configs, max_cn, region_coverage, solver, debug=None, fusion_support=None):
        rng = random.Random(f"{seed}:cn:{counter['cn']}")
        counter["cn"] += 1
        dele = gene.deletion_allele()
        confs = sorted(c for c in gene.cn_configs if c != dele and has_allele(gene, c))
        cands = [["1", "1"], ["1", "1", "1"], ["1"], ["1", "1", "1", "1"]]
        cands += [["1", c] for c in confs if c != "1"] + [["1", "1", c] for c in confs if c != "1"]
        cands += [[c, c] for c in confs if c != "1"]
        if dele is not None:
            cands.append([])
        picked = rng.sample(cands, min(script["n_cn"], len(cands)))
        return [CNSolution(gene, sc, list(names)) for names, sc in zip(picked, scores(rng, len(picked)))]

    def major_stub(gene, coverage, cn_solution, allele_dict, solver, identifier=0, debug=None):
        rng = random.Random(f"{seed}:major:{counter['major']}")
        counter["major"] += 1
        n = 0 if script["empty_major"] else rng.choice([0, 1, 1, 2, 2, 3])
        seen, out = set(), []
        for _ in range(4 * n):
            if len(out) >= n:
                break
            names = []
            for conf, cnt in sorted(cn_solution.solution.items()):
                pool = sorted(a for a, al in gene.alleles.items() if al.cn_config == conf)
                names += [rng.choice(pool) for _ in range(cnt)]
            key = tuple(sorted(names))
            if key in seen:
                continue
            seen.add(key)
            out.append(key)
        # a "twin": the same alleles once more, with a novel core variant flagged (the major model tells such
        # solutions apart by their novel variants)
        from aldy.gene import Mutation
        twins = []
        if out and rng.random() < 0.35:
            key = rng.choice(out)
            carried = {m for a in key for m in gene.alleles[a].func_muts}
            novel = sorted(Mutation(p_, o_) for (p_, o_) in gene.mutations
                           if Mutation(p_, o_) not in carried and gene.is_functional(Mutation(p_, o_), infer=False))
            if novel:
                twins.append((key, [rng.choice(novel)]))
        cands = [(key, []) for key in out] + twins
        return [MajorSolution(score=sc, solution=Counter(SolvedAllele(gene, major=a) for a in key),
                              cn_solution=cn_solution, added=list(add))
                for (key, add), sc in zip(cands, scores(rng, len(cands)))]

    def minor_stub(gene, coverage, major_sol, alleles_list, mutations, solver, max_solutions=1):
        rng = random.Random(f"{seed}:minor:{counter['minor']}")
        counter["minor"] += 1
        n = 0 if script["empty_minor"] else min(max_solutions, rng.choice([0, 1, 1, 1, 2, 2, 3]))
        seen, out = set(), []
        for _ in range(4 * n):
            if len(out) >= n:
                break
            sol = []
            for sa, cnt in major_sol.solution.items():
                minors = sorted(gene.alleles[sa.major].minors)
                sol += [(sa.major, rng.choice(minors)) for _ in range(cnt)]
            key = tuple(sorted(sol))
            if key in seen:
                continue
            seen.add(key)
            out.append(sol)
        res = []
        for sol, sc in zip(out, scores(rng, len(out))):
            ms = MinorSolution(score=sc, solution=[SolvedAllele(gene, ma, mi, [], []) for ma, mi in sol],
                               major_solution=major_sol, profile=coverage.profile)
            estimate_diplotype(gene, ms)
            res.append(ms)
        return res

    def recorded(name, fn):
        def rec(*a, **k):
            entry = {"stage": name, "args": (a, k), "ret": None, "exc": None, "solve_from": SIM.solve_index}
            SIM.stage_calls.append(entry)
            r = fn(*a, **k)
            entry["ret"] = r
            entry["ret_scores"] = [float(x.score) for x in r]
            entry["solve_to"] = SIM.solve_index
            return r
        return rec

    aldy.cn.solve_cn_model = cn_stub
    aldy.major.solve_major_model = major_stub
    aldy.minor.solve_minor_model = recorded("solve_minor_model", minor_stub)
    SIM.fire("scripted_stages:" + mode)


def run_segment(seg):
    if seg["kind"] == "materialise":
        return O.materialise(seg["world"], seg["dir"], seg["samples"], build=seg["build"], profile_yaml=False)
    wd, man = seg["worlddir"], seg["man"]
    os.makedirs(seg["rundir"], exist_ok=True)
    os.chdir(seg["rundir"])
    outp = None
    if seg["out"] != "none":
        outp = os.path.join(seg["rundir"], f"o-{seg['tag']}.{seg['out']}")
    db = os.path.join(wd, man["db"][seg["gene"]])
    if seg.get("script"):
        _install_script(seg["script"], seg["params"].get("gap", 0))
    rec = O.run_genotype(db, os.path.join(wd, man["samples"]["s0"]), os.path.join(wd, man["ref_bam"]), outp,
                         cn_region=man["neutral"], params=seg["params"], report=bool(seg.get("report")))
    raw = rec.pop("_raw", None)
    res_list = list(raw.values())[0] if raw else []
    viol = []
    probes = {"ge2_structures": 0, "ge2_majors": 0, "ge2_reported": 0, "empty_stages": [],
              "selection_checked": 0, "chains_checked": 0}
    oracle(res_list, rec["exc"], rec["output"], seg["out"], "s0", seg["gene"], viol, probes)
    stages = []
    for c in SIM.stage_calls:
        if c["ret"] is None or c["stage"] == "solve_minor_model":
            continue
        if c["stage"] == "estimate_cn":
            key, ret = "cn", [canon.cn_solution(x) for x in c["ret"]]
        elif c["stage"] == "estimate_major":
            key, ret = _cn_key(c["args"][0][2]), [canon.major_solution(x) for x in c["ret"]]
        else:
            key, ret = "minor", [canon.minor_solution(x) for x in c["ret"]]
        stages.append({"stage": c["stage"], "key": key, "ret": ret, "solve_from": c["solve_from"],
                       "solve_to": c["solve_to"]})
    fired = {k: v for k, v in SIM.fired.items() if k in FAULT_KINDS}
    if rec["exc"] and rec["exc"].get("msg"):
        rec["exc"]["msg"] = rec["exc"]["msg"].replace(seg["rundir"], "<run>").replace(wd, "<world>")
    return {"result": rec["result"], "exc": rec["exc"], "output": rec["output"], "violations": viol[:10],
            "probes": probes, "stages": stages, "solves": SIM.solve_index, "fired": fired,
            "script": (seg.get("script") or {}).get("mode"),
            "adv": {k: v for k, v in SIM.fired.items() if k.startswith("adversary")},
            "monitor_failures": list(SIM.monitor_failures)}

"""C02 - major star-allele calls are consistent, optimal and complete.

Simulator-owned dimension: which optimum, in which order, the solver returns
(adversarial vertex choice on the optimal face at every solve), integrality jitter
and solver status faults during the enumeration.  Oracle: an independent evaluator
of the statement's objective and admissibility rules, per-solution invariants on
every optimum the adversary draws, cross-adversary set equality and a brute-force
reference over all allele multisets (small instances).
"""

import copy
import itertools
import random
from collections import Counter

from .. import canon
from .. import stagelib as SL
from ..seams import SIM

ID = "C02"
LEVEL = "exploration"
SEGMENT_TIMEOUT = 240
TIERS = {
    "quick": dict(plans=48, budget_s=70, cases=6, advs=4, det_plans=2, shipped=[]),
    "thorough": dict(plans=4000, budget_s=900, cases=8, advs=10, det_plans=8, shipped=["CYP2A6", "GSTM1", "CYP2C19"],
                     always_selftest=True),
}
TOL = 1e-4
BAND = 1e-4
MAX_ENUM = 60000


def gen_case(rng, tier):
    cfg = TIERS[tier]
    mode = rng.choice(["planted", "planted", "noisy", "noisy", "wild", "excess", "crowded", "near_tie"])
    r = rng.random()
    if mode == "crowded":
        # needs a site with several catalogued core alternatives
        gene = {"kind": "world", "world": SL.gen_stage_world(rng, multiallelic="core")}
    elif r < 0.3:
        gene = {"kind": "toy", "genome": rng.choice(["hg19", "hg38"])}
    elif r < 0.92 or not cfg["shipped"]:
        gene = {"kind": "world", "world": SL.gen_stage_world(rng)}
    else:
        gene = {"kind": "shipped", "name": rng.choice(cfg["shipped"]), "genome": rng.choice(["hg19", "hg38"])}
    return {"gene": gene, "seed": rng.randint(0, 10**9), "gap": rng.choice([0, 0, 0.1, 0.5]),
            "mode": mode,
            "depth": rng.choice([10, 20, 30]), "max_copies": rng.choice([2, 3, 3, 4])}


def gen_plan(rng, tier, i, seed):
    cfg = TIERS[tier]
    return {"segments": [{"hashseed": rng.choice([0, 1, 2, 3]),
                          "cases": [gen_case(rng, tier) for _ in range(cfg["cases"])],
                          "advs": [rng.randint(0, 10**9) for _ in range(cfg["advs"])],
                          "jitter": rng.randint(0, 10**9), "fault_seed": rng.randint(0, 10**9)}]}


def execute(plan, runner, rundir):
    return {"segments": [runner.segment(s) for s in plan["segments"]]}


def judge(plan, outcome):
    vs = []
    for r in outcome["segments"]:
        if r.get("unsound"):
            raise RuntimeError("simulator unsound: " + canon.jdump(r["unsound"])[:600])
        vs += r["violations"]
    return vs


def signature(v):
    return {"clause": v["clause"]}


def shrink(plan):
    seg = plan["segments"][0]
    if len(seg["cases"]) > 1:
        for c in seg["cases"]:
            p = copy.deepcopy(plan)
            p["segments"][0]["cases"] = [c]
            yield p
    if len(seg["advs"]) > 1:
        for a in seg["advs"]:
            p = copy.deepcopy(plan)
            p["segments"][0]["advs"] = [a]
            yield p
    if seg["hashseed"]:
        p = copy.deepcopy(plan)
        p["segments"][0]["hashseed"] = 0
        yield p


def new_stats():
    return {"plans": 0, "cases": 0, "runs": 0, "solutions": 0, "brute": 0, "brute_combos": 0, "fired": {},
            "ge2": 0, "novel": 0, "planted_found": 0, "adv_sets_differ_order": 0, "shapes": set(), "empty": 0,
            "genes": {}, "faults": 0, "truncated": 0, "realigned_indel_cases": 0}


def count_evaluations(plan, out):
    return sum(r["stats"]["runs"] for r in out["segments"])


def update_stats(acc, plan, out):
    acc["plans"] += 1
    for r in out["segments"]:
        st = r["stats"]
        for k in ("cases", "runs", "solutions", "brute", "brute_combos", "ge2", "novel", "planted_found", "empty",
                  "faults", "truncated"):
            acc[k] += st[k]
        for k, v in st["fired"].items():
            acc["fired"][k] = acc["fired"].get(k, 0) + v
        for k, v in st["genes"].items():
            acc["genes"][k] = acc["genes"].get(k, 0) + v
        acc["shapes"].update(st["shapes"])
        acc["realigned_indel_cases"] += st.get("realigned_indel_cases", 0)


def sample_view(plan, out):
    c = plan["segments"][0]["cases"][0]
    v = dict(c)
    if v["gene"]["kind"] == "world":
        g = v["gene"]["world"]["genes"][0]
        v["gene"] = {"kind": "world", "strand": g["strand"], "alleles": [[a["name"], a["kind"], a["vars"]] for a in g["alleles"]]}
    return {"case": v, "result": out["segments"][0].get("sample")}


def evidence(acc):
    return {
        "coverage": {
            "distinct_nontrivial": len(acc["shapes"]),
            "rule": "one evaluation = one estimate_major() call under one solver behaviour (plain CBC, adversary "
                    "sub-seed, jitter, status fault) judged by the independent evaluator; distinct_nontrivial = "
                    "distinct (gene, structure, evidence table) cases with at least one reported solution",
            "plans": acc["plans"],
            "cases": acc["cases"],
            "runs": acc["runs"],
            "solutions_judged": acc["solutions"],
            "brute_force_references": acc["brute"],
            "cases_with_realigned_indel_counts": acc["realigned_indel_cases"],
            "allele_multisets_enumerated": acc["brute_combos"],
            "fault_kinds_fired": acc["fired"],
            "genes": acc["genes"],
            "probes": {"cases_with_ge2_solutions": acc["ge2"], "solutions_with_novel_variants": acc["novel"],
                       "planted_combination_found_with_zero_error": acc["planted_found"],
                       "cases_without_solution": acc["empty"], "faulted_runs": acc["faults"],
                       "faulted_runs_truncated": acc["truncated"]},
            "components": {
                "real": ["aldy.major (filter, model builder, enumeration)", "aldy.lpinterface", "CBC"],
                "stub": ["solver proxy (adversarial optimal vertex, jitter, status faults)"],
            },
        },
        "assumptions": [
            "the evidence filter (_filter_alleles) is taken as given: the oracle judges the model on the filtered evidence",
            "constants only the code knows: 0.1 per novel variant and profile.major_novel once if any variant is novel",
            "tolerance 1e-4 on objectives; a combination within 1e-4 of the gap boundary may or may not be reported",
            "optimality on instances with more than 60000 allele multisets rests on cross-adversary agreement only",
        ],
    }


# ---------------------------------------------------------------------------
# child side


def _key(sol):
    al = []
    for a, n in sol.solution.items():
        al += [a.major] * n
    return (tuple(sorted(al)), tuple(sorted((m.pos, m.op) for m in sol.added)))


class Evaluator:
    """Independent re-statement of the major model on the filtered evidence."""

    def __init__(self, gene, cov, cn, alleles, profile):
        from aldy.gene import Mutation

        self.gene, self.cov, self.cn, self.alleles, self.profile = gene, cov, cn, alleles, profile
        self.M = Mutation
        self.func = sorted({Mutation(*m) for m in gene.mutations if gene.is_functional(m) and cov[Mutation(*m)] > 0})
        self.sites = sorted({m.pos for m in self.func})
        self.obs = {}
        for m in self.func + [Mutation(p, "_") for p in self.sites]:
            # observed copies = share of the site's depth x copies the structure has there (restated, not
            # taken from aldy's helper; a site without any depth counts as depth 1)
            k_ = cn.position_cn(m.pos)
            self.obs[m] = (cov[m] * k_ / max(1, cov.total(m))) if k_ else 0.0

    def novel_of(self, combo):
        carried = set()
        for a in combo:
            carried |= set(self.alleles[a].func_muts)
        return tuple(sorted(m for m in self.func if m not in carried))

    def admissible(self, combo, novel):
        cnt = Counter(self.alleles[a].cn_config for a in combo)
        if cnt != Counter({k: v for k, v in self.cn.solution.items() if v}):
            return "allele count per configuration differs from the structure"
        want = self.novel_of(combo)
        if tuple(sorted(novel)) != want:
            return "observed core variant not accounted for exactly once (carried XOR novel)"
        per = Counter(m.pos for m in novel if not m.op.startswith("ins"))
        if any(v > 1 for v in per.values()):
            return "two novel variants at one site"
        return None

    def objective(self, combo, novel):
        err = 0.0
        nov = set(novel)
        for m in self.func:
            called = sum(1 for a in combo if m in self.alleles[a].func_muts) + (1 if m in nov else 0)
            err += abs(self.obs[m] - called)
        for p in self.sites:
            called = 0
            for a in combo:
                if not self.gene.has_coverage(a, p):
                    continue
                if any(x.pos == p and not x.op.startswith("ins") for x in self.alleles[a].func_muts):
                    continue
                called += 1
            err += abs(self.obs[self.M(p, "_")] - called)
        return err + (self.profile.major_novel if nov else 0.0) + 0.1 * len(nov), err

    def brute(self, limit=MAX_ENUM):
        per_conf = []
        total = 1
        for conf, cnt in sorted(self.cn.solution.items()):
            if not cnt:
                continue
            cands = sorted(a for a in self.alleles if self.alleles[a].cn_config == conf)
            combos = list(itertools.combinations_with_replacement(cands, cnt))
            total *= max(1, len(combos))
            if total > limit:
                return None
            per_conf.append(combos)
        table = {}
        for parts in itertools.product(*per_conf):
            combo = tuple(sorted(a for part in parts for a in part))
            novel = self.novel_of(combo)
            if self.admissible(combo, novel):
                continue
            table[(combo, tuple((m.pos, m.op) for m in novel))] = self.objective(combo, novel)[0]
        return table


def run_case(case, seg, viol, unsound, stats, sample):
    import aldy.major as MJ
    from aldy.profile import Profile
    from aldy.solutions import CNSolution

    rng = random.Random(case["seed"])
    gene = SL.load_gene(case["gene"])
    gname = case["gene"].get("name", case["gene"]["kind"])
    stats["genes"][gname] = stats["genes"].get(gname, 0) + 1
    cn = SL.random_cn(rng, gene, case["max_copies"])
    planted = SL.random_planted(rng, gene, cn)
    if planted is None:
        return
    mode = case["mode"]
    if mode == "planted":
        # the statement's noise-free clause is about catalogued *major* alleles: core variants only
        # (a silent variant of a sub-allele sitting on another allele's core site is outside it)
        table = SL.planted_table(gene, [(ma, None) for ma, mi in planted], case["depth"])
    elif mode == "noisy":
        table = SL.planted_table(gene, planted, case["depth"], rng, noise=rng.choice([0.1, 0.25, 0.4]),
                                 extra_noise=rng.choice([0, 0, 1, 2]))
    elif mode == "excess":
        # (1) an observed core variant that no candidate allele can carry (all its carriers need another,
        #     unobserved core variant) forces a novel call; (2) two core variants that no allele combines
        #     are both seen on every copy, so each can be carried at most once per copy of its allele
        from aldy.gene import Mutation

        D = case["depth"]
        ncopy = len(cn)
        funcs = sorted(Mutation(*m) for m in gene.mutations if gene.is_functional(m))
        cands1 = [a for a in gene.alleles.values() if a.cn_config == "1"]
        table = {}
        sites = {}
        for (pos, op) in gene.mutations:
            sites.setdefault(pos, []).append(op)
        for pos in sites:
            table[pos] = {"_": D * ncopy}
        pair = None
        for x in funcs:
            for z in funcs:
                if x.pos < z.pos and any(set(a.func_muts) == {x} for a in cands1) and any(set(a.func_muts) == {z} for a in cands1) \
                        and not any({x, z} <= set(a.func_muts) for a in cands1):
                    pair = (x, z)
                    break
            if pair:
                break
        if pair:
            for m in pair:
                table[m.pos] = {m.op: D * ncopy, "_": 0}
        seen = set(pair or ())
        for y in funcs:
            if y in seen or any(y.pos == s_.pos for s_ in seen):
                continue
            carriers = [a for a in cands1 if y in a.func_muts]
            if carriers and all(any(w not in seen and w != y for w in a.func_muts) for a in carriers):
                table[y.pos] = {y.op: D, "_": D * (ncopy - 1)}
                break
    elif mode == "near_tie":
        # a core variant observed at almost exactly k + 0.5 copies: two combinations whose fit errors differ
        # by a few thousandths (between the solver precision 1e-5 and the solution precision 1e-2)
        table = SL.planted_table(gene, [(ma, None) for ma, mi in planted], 500)
        have = sorted({m for ma, mi in planted for m in gene.alleles[ma].func_muts})
        if have:
            x = rng.choice(have)
            ncopy = max(1, sum(1 for ma, mi in planted if gene.has_coverage(ma, x.pos)))
            tot = 500 * ncopy
            kx = sum(1 for ma, mi in planted if x in gene.alleles[ma].func_muts)
            want = (kx - 0.5) / ncopy
            cx = int(round(want * tot)) + rng.choice([-3, -2, -1, 1, 2, 3])
            cx = max(1, min(tot - 1, cx))
            table[x.pos] = {x.op: cx, "_": tot - cx}
    elif mode == "crowded":
        # every catalogued alternative allele of a multi-allelic site is observed, more of them than the
        # structure has copies: all but `copies` of them would have to be novel at ONE site
        table = SL.planted_table(gene, [(ma, None) for ma, mi in planted], case["depth"])
        by_pos = {}
        for (pos, op) in gene.mutations:
            if gene.is_functional((pos, op)) and ">" in op and len(op) == 3:
                by_pos.setdefault(pos, []).append(op)
        multi = [p for p, ops in by_pos.items() if len(ops) >= 2]
        if multi:
            p0 = rng.choice(sorted(multi))
            D = case["depth"]
            table[p0] = {"_": 0}
            for op in by_pos[p0]:
                table[p0][op] = D
    else:
        table = SL.planted_table(gene, planted, case["depth"], rng, noise=0.5, extra_noise=rng.randint(2, 6))
    profile = Profile("test", gap=case["gap"])
    if len(cn) >= 3 and mode != "planted" and rng.random() < 0.3:
        # a core site with fewer reads than the structure has copies (two reads of the variant, nothing else)
        cns_ = CNSolution(gene, 0, cn)
        cand = sorted((pos, op) for (pos, op) in gene.mutations
                      if gene.is_functional((pos, op)) and ">" in op and len(op) == 3 and cns_.position_cn(pos) >= 3)
        if cand:
            pos, op = rng.choice(cand)
            table[pos] = {op: 2, "_": rng.choice([0, 0, 1])}
            stats["shallow_sites"] = stats.get("shallow_sites", 0) + 1
    if mode in ("noisy", "wild") and rng.random() < 0.5:
        # a site with three kinds of observation: an uncatalogued base listed FIRST that fails the read filter,
        # the reference, and a catalogued core substitution a hair below its limit (the limit is taken against
        # the site's whole depth, whatever the filter has already thrown away)
        cns_ = CNSolution(gene, 0, cn)
        cand = sorted((pos, op) for (pos, op) in gene.mutations
                      if gene.is_functional((pos, op)) and ">" in op and len(op) == 3 and cns_.position_cn(pos) >= 1)
        if cand:
            pos, op = rng.choice(cand)
            k_ = cns_.position_cn(pos)
            T_ = rng.choice([100, 200])
            limit = T_ * profile.threshold / (k_ + 0.5)
            var = int(limit) - 1 if float(int(limit)) == limit else int(limit)
            need = T_ - var * (k_ + 0.5) / profile.threshold  # depth that has to go for the variant to pass
            n_ = int(need) + 2
            other = next(b for b in "ACGT" if b != op[0] and b != op[2])
            if 0 < var and 2 <= n_ < limit and n_ + var < T_:
                table[pos] = {f"{op[0]}>{other}": n_, "_": T_ - n_ - var, op: var}
                stats["noise_first_sites"] = stats.get("noise_first_sites", 0) + 1
    stats["cases"] += 1
    detail0 = {"gene": gname, "structure": cn, "planted": planted, "mode": mode, "gap": case["gap"]}
    # evidence as the alignment reader delivers it: catalogued indels counted by the realigner on its own
    # read set (another depth than the pile-up, same supporting fraction)
    indels = SL.realigned_table(gene, table, rng.choice([2, 3])) if rng.random() < 0.4 else None
    if indels:
        stats["realigned_indel_cases"] = stats.get("realigned_indel_cases", 0) + 1
        detail0["realigned_indels"] = [[p_, o_, v_] for (p_, o_), v_ in sorted(indels.items())][:4]

    def call():
        cov = SL.make_coverage(gene, table, profile, indels=indels)
        cns = CNSolution(gene, 0, cn)
        sols = MJ.estimate_major(gene, cov, cns, "cbc")
        alleles, fcov = MJ._filter_alleles(gene, cov, cns)
        # the read filter restated (substitutions and reference observations of the pile-up only): an observation
        # is kept iff it has min_coverage reads and threshold / cn_max of the site's depth and, for a variant,
        # threshold / (copies at the site + 0.5) of it - the site's depth being the depth of the whole site
        for pos_, ops_ in table.items():
            tot_ = sum(c_ for o_, c_ in ops_.items() if not o_.startswith("ins"))
            if any(o_.startswith(("ins", "del")) for o_ in ops_) or (indels and any(p2 == int(pos_) for p2, _ in indels)):
                continue
            for o_, c_ in ops_.items():
                lim = max(profile.min_coverage, tot_ * profile.threshold / profile.cn_max)
                if o_ != "_":
                    lim = max(lim, tot_ * profile.threshold / (cns.position_cn(int(pos_)) + 0.5))
                if abs(c_ - lim) < 1e-6 or c_ == 0:
                    continue
                kept = bool(fcov._coverage.get(int(pos_), {}).get(o_))
                if kept != (c_ >= lim) and not any(v_["clause"].startswith("read filter") for v_ in viol):
                    viol.append({"clause": "read filter kept / dropped an observation contrary to the documented thresholds",
                                 "detail": dict(detail0, pos=int(pos_), op=o_, reads=c_, site_depth=tot_, limit=lim,
                                                kept=kept, site=dict(ops_))})
        return sols, Evaluator(gene, fcov, cns, alleles, profile), cns

    def per_solution(sols, ev, mode_name):
        keys = []
        for s in sols:
            stats["solutions"] += 1
            combo, novel_k = _key(s)
            novel = [ev.M(*m) for m in novel_k]
            d = dict(detail0, solver=mode_name, solution=[list(combo), [list(x) for x in novel_k]], score=s.score)
            if novel:
                stats["novel"] += 1
            bad = None
            for a in combo:
                if a not in ev.alleles:
                    bad = "called allele is not an admissible candidate"
            bad = bad or ev.admissible(combo, novel)
            if bad:
                viol.append({"clause": bad, "detail": d})
                continue
            obj, err = ev.objective(combo, novel)
            if abs(obj - s.score) > TOL:
                viol.append({"clause": "reported score differs from the fit error plus novelty penalties",
                             "detail": dict(d, recomputed=obj)})
            keys.append(((combo, novel_k), obj))
        if len({k for k, _ in keys}) != len(keys):
            viol.append({"clause": "a combination is reported more than once", "detail": dict(detail0, solver=mode_name)})
        return keys

    # --- fault-free reference configuration: plain CBC
    SIM.reset({"max_solves": 4000, "max_wall": 90.0, "monitor": True})
    sols, ev, cns = call()
    stats["runs"] += 1
    nsolves = SIM.solve_index
    plain = per_solution(sols, ev, "plain")
    if not sample:
        sample.append({"structure": cn, "planted": planted, "solutions": [[list(k[0]), list(k[1]), round(o, 4)] for k, o in plain][:4]})
    if len(plain) >= 2:
        stats["ge2"] += 1
    if not plain:
        stats["empty"] += 1
    else:
        stats["shapes"].add(canon.digest([case["gene"].get("name", canon.digest(case["gene"])[:8]), cn, table])[:12])
    best = min((o for _, o in plain), default=None)
    # brute force reference
    table_bf = ev.brute() if not (set(cns.solution) - {a.cn_config for a in ev.alleles.values()}) else {}
    if table_bf is not None:
        stats["brute"] += 1
        stats["brute_combos"] += len(table_bf)
        if table_bf:
            opt = min(table_bf.values())
            ub = (1 + case["gap"]) * opt
            must = {k for k, o in table_bf.items() if o <= ub + 1e-6}  # aldy itself keeps up to ub + 1e-5
            may = {k for k, o in table_bf.items() if o <= ub + BAND + 1e-5}
            got = {k for k, _ in plain}
            if best is None:
                viol.append({"clause": "an admissible combination exists but nothing is reported",
                             "detail": dict(detail0, optimum=opt)})
            elif abs(best - opt) > TOL:
                viol.append({"clause": "an admissible combination scores lower than the best reported one",
                             "detail": dict(detail0, best_reported=best, optimum=opt,
                                            witness=[list(x) for x in min(table_bf, key=table_bf.get)])})
            if must - got:
                viol.append({"clause": "an admissible combination within the gap is not reported",
                             "detail": dict(detail0, missing=[list(x) for x in sorted(must - got)[0]], optimum=opt)})
            if got - may:
                viol.append({"clause": "a reported combination lies outside the gap",
                             "detail": dict(detail0, extra=[list(x) for x in sorted(got - may)[0]], optimum=opt)})
        elif plain:
            viol.append({"clause": "a combination is reported although none is admissible", "detail": detail0})
    # noise-free planted evidence: the true combination, error zero
    if mode == "planted":
        want = tuple(sorted(ma for ma, mi in planted))
        hit = [o for (k, o) in plain if k[0] == want and not k[1]]
        if not hit or hit[0] > 1e-6:
            viol.append({"clause": "planted combination is not reported with error zero on noise-free evidence",
                         "detail": dict(detail0, reported=[[list(k[0]), round(o, 4)] for k, o in plain][:5])})
        else:
            stats["planted_found"] += 1
    # --- adversarial optimum choice
    for a in seg["advs"]:
        SIM.reset({"max_solves": 4000, "max_wall": 90.0, "adversary": a, "monitor": True})
        sols2, ev2, _ = call()
        stats["runs"] += 1
        adv = per_solution(sols2, ev2, f"adversary:{a}")
        for k, v in SIM.fired.items():
            stats["fired"][k] = stats["fired"].get(k, 0) + v
        b2 = min((o for _, o in adv), default=None)
        if (best is None) != (b2 is None) or (best is not None and abs(best - b2) > TOL):
            viol.append({"clause": "best score depends on which optimum the solver returns",
                         "detail": dict(detail0, plain=best, adversary=b2, seed=a)})
            continue
        if best is None:
            continue
        ub = (1 + case["gap"]) * best
        s1 = {k for k, o in plain if o <= ub + 1e-6}
        s2 = {k for k, o in adv if o <= ub + 1e-6}
        if s1 != s2:
            viol.append({"clause": "set of reported combinations depends on which optimum the solver returns",
                         "detail": dict(detail0, only_plain=[list(x) for x in sorted(s1 - s2)[:1]],
                                        only_adversary=[list(x) for x in sorted(s2 - s1)[:1]], seed=a)})
    # --- history: the same evidence object was used for another structure before (genotype() does that
    #     whenever the structure stage returns several solutions)
    SIM.reset({"max_solves": 4000, "max_wall": 90.0, "monitor": True})
    cov_h = SL.make_coverage(gene, table, profile, indels=indels)
    other = list(cn) + ["1"] if len(cn) < 4 else list(cn)[:-1]
    try:
        MJ.estimate_major(gene, cov_h, CNSolution(gene, 0, other), "cbc")
    except Exception:
        pass
    sols_h = MJ.estimate_major(gene, cov_h, CNSolution(gene, 0, cn), "cbc")
    stats["runs"] += 1
    hist = {(_key(s_), round(s_.score, 4)) for s_ in sols_h}
    if hist != {(_key(s_), round(s_.score, 4)) for s_ in sols}:
        viol.append({"clause": "result depends on an earlier call that used the same evidence object",
                     "detail": dict(detail0, earlier_structure=other,
                                    fresh=sorted([list(k[0]), sc] for (k, sc) in {(_key(s_), round(s_.score, 4)) for s_ in sols})[:3],
                                    after_history=sorted([list(k[0]), sc] for (k, sc) in hist)[:3])})
    # --- jitter
    SIM.reset({"max_solves": 4000, "max_wall": 90.0, "jitter": seg["jitter"], "monitor": True})
    sols3, ev3, _ = call()
    stats["runs"] += 1
    j = per_solution(sols3, ev3, "jitter")
    if {k for k, _ in j} != {k for k, _ in plain}:
        viol.append({"clause": "integrality jitter changes the reported combinations", "detail": detail0})
    # --- a status fault somewhere in the enumeration may only shorten the list
    frng = random.Random(seg["fault_seed"] ^ case["seed"])
    if nsolves:
        k = frng.randrange(nsolves)
        kind = frng.choice(["infeasible", "abnormal", "not_solved", "incumbent", "verify"])
        SIM.reset({"max_solves": 4000, "max_wall": 90.0, "faults": [{"at": k, "kind": kind, "seed": k}], "monitor": False})
        sols4, ev4, _ = call()
        stats["runs"] += 1
        stats["faults"] += 1
        f = per_solution(sols4, ev4, f"fault:{kind}@{k}")
        for kk, v in SIM.fired.items():
            stats["fired"][kk] = stats["fired"].get(kk, 0) + v
        if not {x for x, _ in f} <= {x for x, _ in plain}:
            viol.append({"clause": "a faulted enumeration reported a combination the fault-free one did not",
                         "detail": dict(detail0, fault=[k, kind])})
        if len(f) < len(plain):
            stats["truncated"] += 1


def run_segment(seg):
    viol, unsound, sample = [], [], []
    stats = {"cases": 0, "runs": 0, "solutions": 0, "brute": 0, "brute_combos": 0, "fired": {}, "ge2": 0, "novel": 0,
             "planted_found": 0, "empty": 0, "shapes": set(), "genes": {}, "faults": 0, "truncated": 0}
    for case in seg["cases"]:
        run_case(case, seg, viol, unsound, stats, sample)
    stats["shapes"] = sorted(stats["shapes"])
    return {"violations": viol[:10], "unsound": unsound[:2], "stats": stats, "sample": sample[:1]}

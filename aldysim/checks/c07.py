"""C07 - copy-number signal is depth-normalised: a two-copy reference reads as 2.0.

Simulator-owned dimension: k-fold duplicate delivery of every record (stream seam) or
of the gene records only (container writer), the two-invocation history
*profile -> genotype* with the profile handed over as a BAM or as the YAML text aldy's
own profile code writes (read back in another process with another hash seed),
index / full-scan path, delivery order, and loss of the neutral region.
"""

import copy
import os
import random

from .. import canon
from .. import ops as O
from .. import workload as WL
from .. import world as W
from ..seams import SIM

ID = "C07"
LEVEL = "exploration"
SEGMENT_TIMEOUT = 180
TIERS = {
    "quick": dict(plans=48, budget_s=70, det_plans=2),
    "thorough": dict(plans=6000, budget_s=900, det_plans=8, always_selftest=True),
}
REL = 1e-9


def gen_plan(rng, tier, i, seed):
    kinds = ["snp", "snp", "mnp"] if rng.random() < 0.4 else ["snp", "snp", "snp", "del", "ins", "mnp"]
    world = WL.one_gene_world(rng, small=True, lfusion=rng.random() < 0.3, rfusion=rng.random() < 0.3, kinds=kinds)
    g = world["genes"][0]
    # custom neutral region: sometimes a sub-interval of the generated one
    c0, c1 = world["neutral"]
    if rng.random() < 0.5:
        a = rng.randint(c0, c0 + (c1 - c0) // 3)
        b = rng.randint(c1 - (c1 - c0) // 3, c1)
        world["neutral"] = [a, b]
    if rng.random() < 0.4:
        # the neutral locus on another chromosome, at coordinates that overlap the gene's
        c0, c1 = world["neutral"]
        world["neutral_contig"] = {"name": "21" if world["contig"]["name"] != "21" else "20",
                                   "offset": g["g0"] - c0 + rng.randint(-40, 60)}
    smp = {"name": "s0", "genes": {g["name"]: WL._gen_units(rng, g)}, "phase_seed": rng.randint(0, 999),
           "softclip": rng.choice([0, 0.1, 0.3]), "random_ins": rng.choice([0, 0.1, 0.2]),
           "random_del": rng.choice([0, 0.1, 0.2])}
    return {"world": world, "samples": {"s0": smp}, "build": rng.choice(["hg19", "hg19", "hg38"]),
            "k": rng.choice([2, 3, 4, 5]), "route": rng.choice(["bam", "yml"]),
            "write_hashseed": rng.choice([0, 1, 2]), "read_hashseed": rng.choice([0, 1, 2, 3, 4]),
            "shuffle": rng.choice([None, rng.randint(0, 10**6)]), "hide_index": rng.random() < 0.3,
            # a model parameter that has no business in the normalisation: the copy-number ceiling of the
            # structure model (the multiplied gene reads go well beyond it)
            "cn_max": rng.choice([None, None, 3, 5, 8]),
            # the profile scan also asks for a region on a chromosome the file does not have
            "absent_contig": rng.random() < 0.4,
            # the shipped NA10860 alignments profiled against themselves (real reads, the shipped CYP2D6 catalogue
            # with its overlapping regions): approximately 2.0 in every region the profile covers
            "shipped_self": i % 8 == 3}


def execute(plan, runner, rundir):
    wdir = os.path.join(rundir, "world")
    man = runner.segment({"kind": "materialise", "hashseed": plan["write_hashseed"], "world": plan["world"],
                          "samples": plan["samples"], "build": plan["build"], "dir": wdir,
                          "absent_contig": plan.get("absent_contig")})
    res = runner.segment({"kind": "measure", "hashseed": plan["read_hashseed"], "worlddir": wdir, "man": man,
                          "rundir": rundir, "plan": {k: v for k, v in plan.items()}})
    return {"measure": res}


def _v(clause, **detail):
    return {"clause": clause, "detail": detail}


def judge(plan, outcome):
    vs = []
    m = outcome["measure"]
    env = {"route": plan["route"], "k": plan["k"], "build": plan["build"], "cn_max": plan.get("cn_max")}
    # (1) the profile sample fed back to itself reads 2.0 wherever the profile has depth
    for route in ("bam", "yml", "own", "second_region", "short_region", "reused_profile"):
        r = m["self"][route]
        if r.get("exc"):
            vs.append(_v("profile sample could not be normalised against its own profile", exc=r["exc"],
                         profile_route=route, **env))
            continue
        for (gi, reg), v in r["rc"]:
            if r["pcov"].get(f"{gi}:{reg}", 0) == 0:
                continue
            if abs(v - 2.0) > 1e-9:
                vs.append(_v("two-copy profile sample does not read 2.0 against its own profile", region=reg,
                             gene_index=gi, got=v, profile_route=route, **env))
                break
    sh = m.get("shipped_self")
    if sh:
        if sh.get("exc"):
            vs.append(_v("profile sample could not be normalised against its own profile", exc=sh["exc"],
                         profile_route="shipped NA10860 / CYP2D6", **env))
        else:
            for (gi, reg), v in sh["rc"]:
                if sh["pcov"].get(f"{gi}:{reg}", 0) > 0 and abs(v - 2.0) > 0.03:
                    vs.append(_v("two-copy profile sample does not read 2.0 against its own profile", region=reg,
                                 gene_index=gi, got=v, profile_route="shipped NA10860 / CYP2D6 (tolerance 0.03)", **env))
                    break
    base = m["base"]
    if base.get("exc"):
        return vs
    b = {tuple(k): v for k, v in base["rc"]}
    # (2) whole-file k-fold duplication: invariant
    d = m["dup_all"]
    if d.get("exc"):
        vs.append(_v("duplicated sample failed", exc=d["exc"], **env))
    else:
        for k, v in d["rc"]:
            if abs(v - b[tuple(k)]) > REL * max(1.0, abs(v)):
                vs.append(_v("normalised depth changes when every read is duplicated k times", region=k[1],
                             gene_index=k[0], base=b[tuple(k)], duplicated=v, **env))
                break
        if d["structure"] != base["structure"]:
            vs.append(_v("reported gene structure depends on sequencing depth", base=base["structure"],
                         duplicated=d["structure"], **env))
    # (3) gene reads only x k: linear
    d = m["dup_gene"]
    if d.get("exc"):
        vs.append(_v("sample with multiplied gene reads failed", exc=d["exc"], **env))
    if not d.get("exc"):
        for k, v in d["rc"]:
            want = plan["k"] * b[tuple(k)]
            if abs(v - want) > REL * max(1.0, abs(want)):
                vs.append(_v("normalised depth is not linear in the gene depth", region=k[1], gene_index=k[0],
                             base=b[tuple(k)], multiplied=v, **env))
                break
    # (4) delivery path does not matter
    d = m["path"]
    if d.get("exc"):
        vs.append(_v("a sample that is normalised through one delivery path is refused through another",
                     exc=d["exc"], **env))
    if not d.get("exc"):
        for k, v in d["rc"]:
            if abs(v - b[tuple(k)]) > REL * max(1.0, abs(v)):
                vs.append(_v("normalised depth depends on delivery order / index path", region=k[1], base=b[tuple(k)],
                             got=v, **env))
                break
    # (5) no neutral reads: rejected
    d = m["no_neutral"]
    if not (d.get("exc") and d["exc"].get("aldy")):
        vs.append(_v("sample without reads in the neutral region was normalised instead of rejected",
                     result=d.get("rc", [])[:2], exc=d.get("exc"), **env))
    # planted copy number (sanity of the whole chain; loose tolerance)
    for (gi, reg), v in base["rc"]:
        want = m["planted"].get(f"{gi}:{reg}")
        if want is not None and abs(v - want) > 0.15:
            vs.append(_v("normalised depth is far from the planted copy number", region=reg, gene_index=gi,
                         planted=want, got=v, **env))
            break
    return vs


def signature(v):
    return {"clause": v["clause"]}


def shrink(plan):
    if plan["build"] != "hg19":
        p = copy.deepcopy(plan)
        p["build"] = "hg19"
        yield p
    if plan["shuffle"] is not None or plan["hide_index"]:
        p = copy.deepcopy(plan)
        p["shuffle"], p["hide_index"] = None, False
        yield p
    if plan["read_hashseed"] or plan["write_hashseed"]:
        p = copy.deepcopy(plan)
        p["read_hashseed"] = p["write_hashseed"] = 0
        yield p
    units = plan["samples"]["s0"]["genes"]
    g = plan["world"]["genes"][0]["name"]
    if len(units[g]) > 2:
        p = copy.deepcopy(plan)
        p["samples"]["s0"]["genes"][g] = units[g][:2]
        yield p


def new_stats():
    return {"plans": 0, "ks": set(), "routes": {}, "regions": 0, "fired": {}, "strands": {}, "pseudo": 0,
            "shapes": set(), "custom_neutral": 0, "restarts": 0}


def count_evaluations(plan, out):
    return 7


def update_stats(acc, plan, out):
    acc["plans"] += 1
    acc["ks"].add(plan["k"])
    acc["routes"][plan["route"]] = acc["routes"].get(plan["route"], 0) + 1
    m = out["measure"]
    acc["regions"] += len(m["base"].get("rc", []))
    for k, v in m["fired"].items():
        acc["fired"][k] = acc["fired"].get(k, 0) + v
    g = plan["world"]["genes"][0]
    acc["strands"][g["strand"]] = acc["strands"].get(g["strand"], 0) + 1
    acc["pseudo"] += int(g["pregions"] is not None)
    acc["shapes"].add(canon.digest([plan["samples"], plan["k"], plan["route"], plan["build"],
                                    canon.digest(plan["world"])])[:12])
    acc["restarts"] += 1


def sample_view(plan, out):
    return {"sample": plan["samples"]["s0"]["genes"], "k": plan["k"], "route": plan["route"],
            "neutral": plan["world"]["neutral"], "base_region_coverage": out["measure"]["base"].get("rc", [])[:6],
            "self_bam": out["measure"]["self"]["bam"].get("rc", [])[:4]}


def evidence(acc):
    return {
        "coverage": {
            "distinct_nontrivial": len(acc["shapes"]),
            "rule": "one evaluation = one Sample construction (base, self x 2 profile routes, all reads x k, gene reads "
                    "x k, other delivery path, neutral region lost); distinct_nontrivial = distinct (world, sample, k, "
                    "route, build) combinations",
            "plans": acc["plans"],
            "k_values": sorted(acc["ks"]),
            "profile_routes": acc["routes"],
            "region_values_compared": acc["regions"],
            "fault_kinds_fired": dict(acc["fired"], process_restart_between_profile_and_genotype=acc["restarts"]),
            "probes": {"strands": acc["strands"], "worlds_with_pseudogene": acc["pseudo"]},
            "components": {
                "real": ["aldy.profile.Profile.load / get_sam_profile_data", "aldy.sam.Sample", "aldy.coverage "
                         "normalisation", "aldy.cn.estimate_cn", "pysam/htslib", "PyYAML"],
                "stub": ["AlignmentFile subclass delivering every record k times / permuted / without index",
                         "container writer multiplying the gene records"],
            },
        },
        "assumptions": [
            "exactness (1e-9) is claimed only for the profile sample fed back to itself and for duplication",
            "the NA10860 'approximately' clause is decided with a tolerance of 0.03 copies (the shipped alignments "
            "profiled against themselves read 1.987-2.0 on the pinned tree; profile and sample side do not apply the "
            "same read eligibility rules)",
        ],
    }


# ---------------------------------------------------------------------------
# child side


def _measure(gene, prof_path, cnr, sam_path, stream=None, structure=False, params=None):
    from aldy.common import AldyException, parse_cn_region
    from aldy.cn import estimate_cn
    from aldy.profile import Profile
    from aldy.sam import Sample

    from .. import streams

    SIM.cfg.pop("stream", None)
    if stream:
        SIM.cfg["stream"] = stream
    streams.reset()
    out = {}
    try:
        p = Profile.load(gene, prof_path, parse_cn_region(cnr) if cnr else None, **(params or {}))
        s = Sample(gene, p, sam_path)
        out["rc"] = [[[gi, r], s.coverage.region_coverage(gi, r)] for gi, gr in enumerate(gene.regions) for r in gr]
        out["pcov"] = {f"{gi}:{r}": p.data[gene.name][r][gi] for gi, gr in enumerate(gene.regions) for r in gr}
        if structure:
            try:
                cns = estimate_cn(gene, p, s.coverage, solver="cbc")
                out["structure"] = sorted(canon.jdump(canon.cn_solution(c)["solution"]) for c in cns)
            except AldyException as ex:
                out["structure"] = ["<error>"]
    except AldyException as ex:
        out["exc"] = O.exc_info(ex)
    except (ZeroDivisionError, KeyError, ValueError, OSError) as ex:
        out["exc"] = O.exc_info(ex)  # not an AldyException: judged as 'not rejected properly'
    finally:
        SIM.cfg.pop("stream", None)
    return out


def run_segment(seg):
    from .. import streams

    if seg["kind"] == "materialise":
        man = O.materialise(seg["world"], seg["dir"], seg["samples"], build=seg["build"], profile_yaml=True,
                            extra={"ref_softclip": 0.2, "ref_random_ins": 0.15, "ref_random_del": 0.15,
                                   "profile_absent_contig": bool(seg.get("absent_contig"))})
        return man
    streams.install_stream_seam()
    from aldy.gene import Gene

    plan = seg["plan"]
    world, build = plan["world"], plan["build"]
    wd, man, rd = seg["worlddir"], seg["man"], seg["rundir"]
    os.chdir(rd)
    g = world["genes"][0]
    gene = Gene(os.path.join(wd, man["db"][g["name"]]), genome=build)
    refbam = os.path.join(wd, man["ref_bam"])
    yml = os.path.join(wd, man["profile_yml"])
    s0 = os.path.join(wd, man["samples"]["s0"])
    import shutil

    selfbam = os.path.join(rd, "self.bam")
    shutil.copy(refbam, selfbam)
    shutil.copy(refbam + ".bai", selfbam + ".bai")
    res = {"self": {}}
    if plan.get("shipped_self"):
        from aldy.common import script_path

        g2d6 = Gene(script_path("aldy.resources.genes/cyp2d6.yml"), genome="hg19")
        na = script_path("aldy.tests.resources/NA10860.bam")
        res["shipped_self"] = _measure(g2d6, na, "22:42547463-42548249", na)
    res["self"]["bam"] = _measure(gene, refbam, man["neutral"], selfbam)
    res["self"]["yml"] = _measure(gene, yml, None, selfbam)
    # any sample is, by definition, two copies against the profile generated from itself
    selfs0 = os.path.join(rd, "selfs0.bam")
    shutil.copy(s0, selfs0)
    shutil.copy(s0 + ".bai", selfs0 + ".bai")
    res["self"]["own"] = _measure(gene, s0, man["neutral"], selfs0)
    # one Profile object, two Sample constructions (an API user genotyping a batch keeps the profile)
    from aldy.common import parse_cn_region as _pcr
    from aldy.profile import Profile as _P
    from aldy.sam import Sample as _S

    try:
        pr = _P.load(gene, refbam, _pcr(man["neutral"]))
        first = _S(gene, pr, selfbam)
        second = _S(gene, pr, selfbam)
        res["self"]["reused_profile"] = {
            "rc": [[[gi, r], second.coverage.region_coverage(gi, r)] for gi, gr in enumerate(gene.regions) for r in gr],
            "pcov": {f"{gi}:{r}": 1 for gi, gr in enumerate(gene.regions) for r in gr
                     if first.coverage.region_coverage(gi, r) != 0}}
    except Exception as ex:
        res["self"]["reused_profile"] = {"exc": O.exc_info(ex)}
    # same profile BAM, another custom neutral region, same process
    c0, c1 = world["neutral"]
    sh = world["hg38_shift"] if build == "hg38" else 0
    mid = (c0 + c1) // 2
    sub = W.neutral_arg(world, build, sub=[c0 + 3, mid])
    res["self"]["second_region"] = _measure(gene, refbam, sub, selfbam)
    # ... and one that is shorter than a read (every read that touches it spans it or sticks out of it)
    L_ = world["reads"]["L"]
    short = W.neutral_arg(world, build, sub=[mid, mid + max(8, L_ // 3)])
    res["self"]["short_region"] = _measure(gene, refbam, short, selfbam)
    prof, cnr = (refbam, man["neutral"]) if plan["route"] == "bam" else (yml, None)
    res["base"] = _measure(gene, prof, cnr, s0, structure=True)
    k = plan["k"]
    res["dup_all"] = _measure(gene, prof, cnr, s0, stream={"dup": k, "only_file": "s0.bam"}, structure=True)
    # gene (and pseudogene) records x k, neutral records x 1
    smp = plan["samples"]["s0"]
    reads = W.sample_reads(world, smp)
    locus = [r for r in reads if not r[3].startswith("n")]
    neutral = [r for r in reads if r[3].startswith("n")]
    gk = os.path.join(rd, "genek.bam")
    W.write_bam(gk, world, [(a, b, c, f"{d}_{j}") for j in range(k) for a, b, c, d in locus] + neutral, build=build)
    res["dup_gene"] = _measure(gene, prof, cnr, gk,
                               params={"cn_max": plan["cn_max"]} if plan.get("cn_max") else None)
    res["path"] = _measure(gene, prof, cnr, s0,
                           stream={"shuffle": plan["shuffle"] if plan["shuffle"] is not None else 7,
                                   "hide_index": plan["hide_index"], "only_file": "s0.bam"})
    nn = os.path.join(rd, "noneutral.bam")
    W.write_bam(nn, world, locus, build=build)
    res["no_neutral"] = _measure(gene, prof, cnr, nn)
    # planted copy number per region (plain units only; thinned / noisy samples are not generated here)
    planted = {}
    for gi, regs in enumerate([g["regions"], g["pregions"]]):
        if regs is None:
            continue
        for nm, a, b in regs:
            tot = 0
            for u in smp["genes"][g["name"]]:
                cn = W.unit_cn(g, u)[gi]
                tot += cn[nm]
            planted[f"{gi}:{nm}"] = tot
    res["planted"] = planted
    res["fired"] = dict(SIM.fired)
    return res

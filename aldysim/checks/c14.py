"""C14 - genotyping is deterministic, isolated and leaves the database untouched.

Simulator-owned dimensions: PYTHONHASHSEED of every process segment, operation
history inside one interpreter, process restarts, multi-gene composition with a
failing gene, candidate order / subset at the minor stage, wall clock, cwd and
TMPDIR.  Plain CBC (adversary off).

Oracle: every operation's canonical result equals the result of the same
operation executed alone in a pristine interpreter with hash seed 0; the
catalogue and evidence renderings never change.
"""

import copy
import io
import os
import random

from .. import canon
from .. import ops as O
from .. import world as W
from ..seams import SIM

ID = "C14"
LEVEL = "exploration"
SEGMENT_TIMEOUT = 600
TIERS = {
    "quick": dict(plans=70, budget_s=60, worlds=15, det_plans=2, hashseeds=8),
    "thorough": dict(plans=6000, budget_s=1200, worlds=80, det_plans=12, hashseeds=256,
                     always_selftest=True),
}
SCORE_TOL = 1e-2  # aldy.common.SOLUTION_PRECISION: the program's own "equal scores"

OUT_KINDS = ["aldy", "vcf", "simple", "none"]


# ---------------------------------------------------------------------------
# plan generation (driver side)


def gen_world(seed, wi):
    rng = random.Random(f"C14:{seed}:world:{wi}")
    gopts = []
    for gi in range(2):
        gopts.append(
            dict(
                strand=rng.choice("+-"),
                gene_len=rng.choice([420, 480, 600, 720]),
                n_exons=rng.choice([2, 3, 3, 4]),
                n_variants=rng.choice([5, 6, 8]),
                n_major=rng.choice([2, 3, 4]),
                ambiguous=rng.random() < 0.6,
                deletion=rng.random() < 0.7,
                lfusion=rng.random() < 0.35,
                rfusion=rng.random() < 0.3,
                pseudo=rng.random() < 0.85,
                tandem=rng.random() < 0.3,
            )
        )
        if not gopts[-1]["pseudo"]:
            gopts[-1]["lfusion"] = gopts[-1]["rfusion"] = False
    if wi % 3 == 2:
        # family "between": gene A has an allele of two core variants none of which has an allele of its own
        gopts[0].update(orphan_core="always", ambiguous=False, n_variants=8)
    exome_ok = wi % 5 == 3
    if exome_ok:
        # two databases the shipped "illumina" profile knows by name and region names (3 exons, no pseudogene),
        # with a whole-gene deletion allele so that copy-number calling exists: the technology profiles given by
        # name (exome / wxs / wes: copy-number calling off, two copies assumed) work on them, alone and in a
        # multi-gene run
        for o, nm in zip(gopts, ("NUDT15", "NAT1")):
            o.update(name=nm, n_exons=3, pseudo=False, deletion=True, lfusion=False, rfusion=False, tandem=False)
    # a third gene nobody sequenced: it must fail with a reported error
    gopts.append(dict(strand=rng.choice("+-"), gene_len=420, n_exons=2, n_variants=3,
                      n_major=1, pseudo=False, deletion=True))
    L = rng.choice([60, 100, 100, 150])
    step = rng.choice([s for s in (3, 4, 5) if L % s == 0] or [5])
    world = W.gen_world(rng, 3, gopts, dict(L=L, step=step), margin=max(200, L + 60))
    world["genes"][2]["no_reads"] = True
    if exome_ok:
        world["exome_ok"] = True
    samples = {}
    for si in range(2):
        smp = {"name": f"s{si}", "genes": {}, "phase_seed": rng.randint(0, 999),
               "paired": rng.random() < 0.5}
        for g in world["genes"][:2]:
            smp["genes"][g["name"]] = gen_units(rng, g)
        samples[smp["name"]] = smp
    between = None
    if wi % 3 == 2:
        # ... and 40% of one of two reference copies of sample s1 show ONE of them: 20% of the reads, i.e.
        # filtered out for a two-copy structure (threshold 25%) but not for three copies (16.7%), where the
        # variant can only be a novel addition
        g0 = world["genes"][0]
        orphan = [a for a in g0["alleles"] if a["kind"] == "normal" and len(a["vars"]) == 2
                  and all(g0["variants"][v]["func"] and g0["variants"][v]["kind"] == "snp"
                          and sum(1 for b in g0["alleles"] if v in b["vars"]) == 1 for v in a["vars"])]
        if orphan:
            samples["s1"]["genes"][g0["name"]] = [
                {"type": "normal", "allele": "1.001", "noise": [{"vid": orphan[0]["vars"][0], "frac": 0.42}]},
                {"type": "normal", "allele": "1.001"}]
            between = g0["name"]
    params = {"gap": rng.choice([0, 0, 0.1, 0.3]), "max_minor_solutions": rng.choice([1, 1, 1, 2])}
    return {"world": world, "samples": samples, "params": params, "between": between,
            "build": "hg19" if rng.random() < 0.8 else "hg38"}


from ..workload import gen_units, _ambiguous_pair, _add_noise, _gen_units  # noqa: E402,F401


def gen_op(rng, w):
    genes = [g["name"] for g in w["world"]["genes"][:2]]
    failing = w["world"]["genes"][2]["name"]
    sample = rng.choice(sorted(w["samples"]))
    kind = rng.choice(
        ["genotype"] * 4 + ["multi"] * 2 + ["stages", "accessors", "accessors", "writers",
                                             "query", "minor_order", "minor_order", "debug"]
    )
    op = {"op": kind, "sample": sample}
    if kind in ("genotype", "debug"):
        op["gene"] = rng.choice(genes + ([failing] if kind == "genotype" and rng.random() < 0.1 else []))
        op["out"] = rng.choice(OUT_KINDS)
        if kind == "genotype" and rng.random() < 0.15:
            # database indels counted from the CIGARs (equivalent placements) instead of realigned: another
            # way through the reader, which must leave nothing behind for the samples loaded afterwards
            op["indelpost_off"] = True
        if kind == "genotype" and rng.random() < (0.5 if w["world"].get("exome_ok") else 0.12):
            # exome route: copy-number calling off, shipped illumina profile (which does not know the
            # generated gene -> reported error); it must leave nothing behind for later operations
            op["exome"] = rng.choice(["exome", "wxs", "wes"])
    elif kind == "multi":
        gl = list(genes)
        rng.shuffle(gl)
        if rng.random() < 0.6:
            gl.insert(rng.randint(0, len(gl)), failing)
        op["genes"] = gl
        op["out"] = rng.choice(OUT_KINDS)
        if w["world"].get("exome_ok") and rng.random() < 0.6:
            op["exome"] = rng.choice(["exome", "wxs", "wes"])
        if rng.random() < 0.3:
            op["mixed_path"] = True
    elif kind == "query":
        op["gene"] = rng.choice(genes)
        op["q"] = rng.choice(["", "1", "2", "1.001", "2.001"])
    elif kind == "minor_order":
        op["gene"] = rng.choice(genes)
        op["perm_seed"] = rng.randint(0, 10**6)
        op["mode"] = rng.choice(["perm", "perm", "subset", "reverse"])
        op["each_first"] = rng.random() < 0.5
    else:
        op["gene"] = rng.choice(genes)
    return op


SHIPPED = {
    "na10860": ("NA10860.bam", "cyp2d6", "illumina"),
    "na10860_pgx": ("NA10860.bam", "cyp2d6", "pgx2"),
    "vcf": ("NA07000_SLCO1B1.vcf.gz", "slco1b1", None),
    "dump_hard": ("HARD.dump.tar.gz", "pharmacoscan/cyp2d6", None),
    "dump_ins": ("INS.dump.tar.gz", "pharmacoscan/cyp2d6", None),
}


def gen_plan(rng, tier, i, seed):
    cfg = TIERS[tier]
    wi = i % cfg["worlds"]
    w = gen_world(seed, wi)
    if tier == "thorough" and i % 40 == 7:
        # shipped material: the same command under two hash seeds (real catalogue, real reads)
        what = rng.choice(sorted(SHIPPED))
        op = {"op": "shipped", "what": what, "out": rng.choice(["aldy", "vcf", "simple"])}
        r2 = random.Random(f"C14:{seed}:hs")
        return {"w": w, "segments": [{"hashseed": rng.choice([1, 2, 3, r2.randint(8, 2**32 - 1)]), "cwd": "run",
                                      "tmp": "default", "clock": {}, "profile_route": "bam", "ops": [op],
                                      "sim": {"max_solves": 20000, "max_wall": 900.0}}]}
    hs_pool = list(range(min(8, cfg["hashseeds"])))
    if cfg["hashseeds"] > 8:
        r2 = random.Random(f"C14:{seed}:hs")
        hs_pool += [r2.randint(8, 2**32 - 1) for _ in range(cfg["hashseeds"] - 8)]
        # keep the zygote population bounded: each plan draws from a window
        base = (i // 64) % max(1, len(hs_pool) - 12)
        hs_pool = hs_pool[:4] + hs_pool[base + 4 : base + 12]
    nops = rng.randint(2, 6)
    opl = [gen_op(rng, w) for _ in range(nops)]
    if w.get("between"):
        # the candidates of the "between" sample handed to the minor stage in another order / as a subset
        opl[rng.randrange(nops)] = {"op": "minor_order", "sample": "s1", "gene": w["between"],
                                    "perm_seed": rng.randint(0, 10**6),
                                    "mode": rng.choice(["reverse", "perm", "perm", "subset"]), "each_first": True}
    # restarts: cut the op list into 1-3 segments
    nseg = rng.choice([1, 1, 2, 2, 3])
    cuts = sorted(rng.sample(range(1, nops), min(nseg - 1, nops - 1))) if nops > 1 else []
    segs = []
    prev = 0
    for c in cuts + [nops]:
        segs.append(
            {
                "hashseed": rng.choice(hs_pool),
                "cwd": rng.choice(["run", "world", "root"]),
                "tmp": rng.choice(["default", "run"]),
                "clock": {"start": rng.choice([1.7e9, 9.466847e8 - 3, 2.0e9]),
                          "jumps": [rng.choice([0.25, 1.0, -5.0, 3600.0, 0.0]) for _ in range(4)]},
                "profile_route": rng.choice(["bam", "yml"]),
                "ops": opl[prev:c],
            }
        )
        prev = c
    return {"w": w, "segments": segs}


# ---------------------------------------------------------------------------
# execution (driver side)


def _base_segment(plan, worlddir, rundir, man):
    w = plan["w"]
    return {"kind": "session", "world": w["world"], "samples": w["samples"], "params": w["params"],
            "build": w["build"], "worlddir": worlddir, "rundir": rundir, "man": man}


def _materialise(runner, w):
    wd = canon.digest([w["world"], w["samples"], w["build"]])

    def make():
        d = os.path.join(runner.root, f"world-{wd}")
        seg = {"kind": "materialise", "hashseed": 0, "world": w["world"], "samples": w["samples"],
               "build": w["build"], "dir": d}
        man = runner.segment(seg)
        return d, man

    return wd, runner.memoised(("world", wd), make)


def ref_ops_for(op, w):
    """Operations whose stand-alone results serve as the reference for `op`."""
    out = [op]
    if op["op"] == "multi":
        for g in op["genes"]:
            out.append({"op": "genotype", "sample": op["sample"], "gene": g, "out": op["out"],
                        **({"mixed_path": True} if op.get("mixed_path") else {}),
                        **({"exome": op["exome"]} if op.get("exome") else {})})
    if op["op"] == "minor_order":
        out = [{"op": "minor_order", "sample": op["sample"], "gene": op["gene"],
                "perm_seed": 0, "mode": "natural"}]
    if op["op"] == "debug":
        out.append({"op": "genotype", "sample": op["sample"], "gene": op["gene"], "out": op["out"]})
    return out


def execute(plan, runner, rundir):
    w = plan["w"]
    wd, (worlddir, man) = _materialise(runner, w)
    base = _base_segment(plan, worlddir, rundir, man)
    segres = []
    for si, seg in enumerate(plan["segments"]):
        s = dict(base)
        s.update(seg)
        s["tag"] = f"s{si}"
        segres.append(runner.segment(s))
    refs = {}
    for seg in plan["segments"]:
        for op in seg["ops"]:
            for rop in ref_ops_for(op, w):
                key = canon.digest(rop)
                if key in refs:
                    continue

                def make(rop=rop):
                    rd = runner.new_dir("ref")
                    s = dict(base)
                    s.update({"hashseed": 0, "cwd": "run", "tmp": "default", "clock": {},
                              "profile_route": "bam", "ops": [rop], "rundir": rd, "tag": "ref"})
                    if rop["op"] == "shipped":
                        s["sim"] = {"max_solves": 20000, "max_wall": 900.0}
                    try:
                        return runner.segment(s)["ops"][0]
                    finally:
                        import shutil

                        shutil.rmtree(rd, ignore_errors=True)

                refs[key] = runner.memoised(("ref", wd, key), make)
    return {"segments": segres, "refs": refs}


# ---------------------------------------------------------------------------
# judging (driver side, pure)


def _cmp_result(a, b):
    """Compare two canonical results; returns None or a description."""
    d = canon.first_diff(canon.strip_scores(a), canon.strip_scores(b))
    if d:
        return d
    sa, sb = canon.scores(a), canon.scores(b)
    for (pa, x), (pb, y) in zip(sa, sb):
        if abs(x - y) >= SCORE_TOL:
            return f"{pa}: score {x} vs {y}"
    return None


def _refinement_set(lst):
    """Order-free view of the refinements of one candidate: allele multiset with
    added / missing variants and the diplotype strings (copy order inside the
    solution list is an artefact of construction order and is ignored here)."""
    out = []
    for x in lst:
        out.append(canon.jdump([sorted(canon.jdump(a) for a in x["solution"]),
                                x.get("major_diplotype"), x.get("minor_diplotype")]))
    return sorted(out)


def _v(clause, **detail):
    return {"clause": clause, "detail": detail}


def judge(plan, outcome):
    vs = []
    refs = outcome["refs"]
    w = plan["w"]
    for si, (seg, res) in enumerate(zip(plan["segments"], outcome["segments"])):
        env = {"segment": si, "hashseed": seg["hashseed"], "history": [o["op"] for o in seg["ops"]]}
        for oi, (op, r) in enumerate(zip(seg["ops"], res["ops"])):
            where = dict(env, op_index=oi, op=op)
            # (iii) database and evidence untouched
            for chg in r.get("state_changes", []):
                vs.append(_v("catalogue or evidence modified", what=chg["what"], path=chg["diff"],
                             after=chg["after"], **where))
            rops = ref_ops_for(op, w)
            ref = refs[canon.digest(rops[0])]
            for k in ("gene_digests",):
                for g, dg in r.get(k, {}).items():
                    rd = ref.get(k, {}).get(g)
                    if rd is not None and rd != dg:
                        vs.append(_v("catalogue differs from a fresh load", gene=g, **where))
            if op["op"] == "minor_order":
                def cmp(got, want, clause, **extra):
                    for key, val in got.items():
                        if key not in want:
                            continue
                        a, b = _refinement_set(val), _refinement_set(want[key])
                        if a == b:
                            continue
                        sa = sorted(round(x["score"], 4) for x in val)
                        sb = sorted(round(x["score"], 4) for x in want[key])
                        tie = len(sa) == len(sb) and all(abs(x - y) < 1e-3 for x, y in zip(sa, sb))
                        c = clause + (" (equal objective: tie resolved differently)" if tie
                                      else " (different objective)")
                        if not tie and "companion" in clause:
                            # pooling can only ADD considered variants (which must then be carried): with more
                            # companions (want = all candidates) the candidate's objective cannot get smaller
                            extra = dict(extra, more_companions="cost-more" if sum(sb) >= sum(sa) - 1e-6
                                         else "cost-less")
                            if bool(sa) != bool(sb):
                                # (a candidate that has a refinement in one call and none at all in the other is
                                # not what pooling does to the objective)
                                extra["more_companions"] = "refinement-lost"
                        vs.append(_v(c, candidate=key, got=a, want=b, scores=[sa, sb], **extra, **where))

                # same process, same hash seed: only the candidate list differs
                cmp(r["refinements"], r["natural"],
                    "minor refinement depends on companion candidates" if r["order_kind"] == "subset"
                    else "minor refinement depends on candidate order", order=r["order"])
                # every candidate in front once (same set of candidates: pooling cannot explain a difference)
                for order, refn in r.get("rotations", []):
                    cmp(refn, r["natural"], "minor refinement depends on candidate order", order=order)
                # same candidate list: only the environment (hash seed, history) differs
                cmp(r["natural"], ref["natural"], "minor-stage result differs from a fresh run")
                continue
            # (i) same result as the stand-alone reference
            d = _cmp_result(r.get("result"), ref.get("result"))
            if d:
                vs.append(_v("result differs from a fresh run", diff=d, **where))
            if r.get("exc") != ref.get("exc"):
                vs.append(_v("error behaviour differs from a fresh run", got=r.get("exc"),
                             ref=ref.get("exc"), **where))
            if r.get("output") != ref.get("output"):
                vs.append(_v("output differs from a fresh run",
                             diff=canon.first_diff((r.get("output") or "").split("\n"),
                                                   (ref.get("output") or "").split("\n")), **where))
            # (ii) multi-gene run = single runs
            if op["op"] == "multi":
                outs = []
                for g, rop in zip(op["genes"], rops[1:]):
                    single = refs[canon.digest(rop)]
                    got = [x for x in (r.get("result") or []) if x[0] == g.lower() + ".yml"]
                    want = single.get("result") or []
                    d = _cmp_result(got, want)
                    if d:
                        vs.append(_v("multi-gene result differs from single-gene run", gene=g,
                                     diff=d, **where))
                    outs.append(single.get("output") or "")
                if op["out"] != "none" and (r.get("output") or "") != "".join(outs):
                    vs.append(_v("multi-gene output differs from single-gene outputs",
                                 diff=canon.first_diff((r.get("output") or "").split("\n"),
                                                       "".join(outs).split("\n")), **where))
            if op["op"] == "debug":
                single = refs[canon.digest(rops[1])]
                d = _cmp_result(r.get("result"), single.get("result"))
                if d:
                    vs.append(_v("debug run differs from plain run", diff=d, **where))
                if r.get("output") != single.get("output"):
                    vs.append(_v("debug run output differs from plain run", **where))
    return vs


def signature(v):
    d = v["detail"]
    sig = {"clause": v["clause"]}
    if "what" in d:
        import re

        sig["what"] = d["what"].split(":")[0]
        sig["after"] = d.get("after")
        sig["field"] = re.sub(r"/\d+", "/*", (d.get("path") or "").split(":")[0])
    if "op" in d:
        sig["op"] = d["op"]["op"]
    if "more_companions" in d:
        sig["more_companions"] = d["more_companions"]
    return sig


# ---------------------------------------------------------------------------
# shrinking


def shrink(plan):
    segs = plan["segments"]
    # drop a whole segment
    if len(segs) > 1:
        for i in range(len(segs)):
            p = copy.deepcopy(plan)
            del p["segments"][i]
            yield p
    # drop one op
    for i, s in enumerate(segs):
        if len(s["ops"]) > 1 or len(segs) > 1:
            for j in range(len(s["ops"])):
                p = copy.deepcopy(plan)
                del p["segments"][i]["ops"][j]
                if not p["segments"][i]["ops"]:
                    del p["segments"][i]
                if p["segments"]:
                    yield p
    # simplify environment
    for i, s in enumerate(segs):
        if s["hashseed"] != 0:
            for h in (0, 1, 2, 3):
                if h < s["hashseed"]:
                    p = copy.deepcopy(plan)
                    p["segments"][i]["hashseed"] = h
                    yield p
        if s["cwd"] != "run" or s["tmp"] != "default" or s["clock"]:
            p = copy.deepcopy(plan)
            p["segments"][i].update(cwd="run", tmp="default", clock={})
            yield p
        if s["profile_route"] != "bam":
            p = copy.deepcopy(plan)
            p["segments"][i]["profile_route"] = "bam"
            yield p
    # simplify ops
    for i, s in enumerate(segs):
        for j, op in enumerate(s["ops"]):
            if op.get("out") not in (None, "none"):
                p = copy.deepcopy(plan)
                p["segments"][i]["ops"][j]["out"] = "none"
                yield p
            if op["op"] == "multi" and len(op["genes"]) > 1:
                for k in range(len(op["genes"])):
                    p = copy.deepcopy(plan)
                    del p["segments"][i]["ops"][j]["genes"][k]
                    yield p
    # simplify parameters
    if plan["w"]["params"].get("gap") or plan["w"]["params"].get("max_minor_solutions", 1) > 1:
        p = copy.deepcopy(plan)
        p["w"]["params"] = {"gap": 0, "max_minor_solutions": 1}
        yield p


# ---------------------------------------------------------------------------
# statistics / evidence


def new_stats():
    return {"plans": 0, "ops": {}, "hashseeds": set(), "shapes": set(), "restarts": 0,
            "var_orders": set(), "multi_with_failing": 0, "multi_solution_results": 0,
            "tie_results": 0, "clock_backward": 0, "clock_reads": 0, "worlds": set(),
            "minor_candidates_ge2": 0, "minor_structures_ge2": 0, "solves": 0, "errors_reported": 0,
            "state_checks": 0}


def count_evaluations(plan, out):
    return sum(len(s["ops"]) for s in plan["segments"])


def update_stats(acc, plan, out):
    acc["plans"] += 1
    acc["worlds"].add(canon.digest(plan["w"]["world"]["contig"]["seq"])[:8])
    acc["restarts"] += len(plan["segments"]) - 1
    shape = []
    for seg, res in zip(plan["segments"], out["segments"]):
        acc["hashseeds"].add(seg["hashseed"])
        shape.append(tuple(o["op"] for o in seg["ops"]))
        acc["var_orders"].update(res["solver"]["var_orders"])
        acc["solves"] += res["solver"]["solves"]
        acc["clock_backward"] += res.get("clock_backward", 0)
        acc["clock_reads"] += res.get("clock_reads", 0)
        acc["clock_span"] = acc.get("clock_span", 0.0) + res.get("clock_span", 0.0)
        for op, r in zip(seg["ops"], res["ops"]):
            acc["ops"][op["op"]] = acc["ops"].get(op["op"], 0) + 1
            acc["state_checks"] += r.get("state_checks", 0)
            if op["op"] == "multi" and len(op["genes"]) == 3:
                acc["multi_with_failing"] += 1
            if r.get("exc"):
                acc["errors_reported"] += 1
            for _, sols in (r.get("result") or []) if op["op"] in ("genotype", "multi", "debug") else []:
                if len(sols) > 1:
                    acc["multi_solution_results"] += 1
                    sc = [round(s["score"], 3) for s in sols]
                    if len(set(sc)) < len(sc):
                        acc["tie_results"] += 1
            if op["op"] == "minor_order":
                if r.get("n_candidates", 0) >= 2:
                    acc["minor_candidates_ge2"] += 1
                if r.get("n_structures", 0) >= 2:
                    acc["minor_structures_ge2"] += 1
    acc["shapes"].add(tuple(shape))


def sample_view(plan, out):
    return {
        "genes": [
            {"name": g["name"], "strand": g["strand"], "alleles": [a["name"] for a in g["alleles"]]}
            for g in plan["w"]["world"]["genes"]
        ],
        "samples": {k: v["genes"] for k, v in plan["w"]["samples"].items()},
        "params": plan["w"]["params"],
        "segments": [
            {"hashseed": s["hashseed"], "cwd": s["cwd"], "profile_route": s["profile_route"],
             "ops": s["ops"]}
            for s in plan["segments"]
        ],
        "first_result": canon.jdump(out["segments"][0]["ops"][0].get("result"))[:600],
    }


def evidence(acc):
    return {
        "coverage": {
            "distinct_nontrivial": len(acc["shapes"]),
            "rule": "one evaluation = one operation of a session compared with its stand-alone "
                    "hash-seed-0 reference and state-checked; distinct_nontrivial = number of distinct "
                    "session shapes (tuple of per-segment operation-kind sequences), every session has "
                    ">= 2 operations",
            "plans": acc["plans"],
            "worlds": len(acc["worlds"]),
            "operation_kinds": acc["ops"],
            "hash_seeds_used": len(acc["hashseeds"]),
            "distinct_ilp_variable_orders": len(acc["var_orders"]),
            "restarts": acc["restarts"],
            "solves": acc["solves"],
            "state_checks": acc["state_checks"],
            "probes": {
                "multi_gene_run_with_failing_gene": acc["multi_with_failing"],
                "results_with_several_solutions": acc["multi_solution_results"],
                "results_with_tied_scores": acc["tie_results"],
                "minor_order_with_ge2_candidates": acc["minor_candidates_ge2"],
                "minor_order_with_ge2_structures": acc["minor_structures_ge2"],
                "reported_errors": acc["errors_reported"],
                "clock_reads": acc["clock_reads"],
                "clock_backward_jumps": acc["clock_backward"],
                "simulated_clock_time_covered_s": round(acc.get("clock_span", 0.0)),
            },
            "fault_kinds_fired": {"process_restart": acc["restarts"],
                                  "clock_backward_jump": acc["clock_backward"]},
            "components": {
                "real": ["aldy (all modules)", "pysam/htslib", "indelpost", "CBC via OR-Tools",
                         "PyYAML", "gzip/tar", "tmpfs as disk"],
                "stub": ["wall clock (aldy.common.time, aldy.genotype.time/datetime)",
                         "delegating solver proxy (observation only for C14)"],
            },
        },
        "assumptions": [
            "scores are compared with aldy's own SOLUTION_PRECISION (1e-2); solutions, their order, "
            "diplotypes and output bytes are compared exactly",
            "log text and `aldy query` text are not compared (the statement only forbids modification)",
            "hash order is only reachable through PYTHONHASHSEED",
        ],
    }


# ---------------------------------------------------------------------------
# child side


class Ctx:
    def __init__(self, seg):
        self.seg = seg
        self.genes = {}
        self.samples = {}
        self.snap = {}
        self.stage = {}
        self.state_checks = 0


def _paths(seg):
    wd = seg["worlddir"]
    man = seg["man"]
    return wd, man


def _profile_args(seg):
    wd, man = _paths(seg)
    if seg.get("profile_route") == "yml":
        return os.path.join(wd, man["profile_yml"]), None
    return os.path.join(wd, man["ref_bam"]), man["neutral"]


def _load(ctx, gname, sname):
    """Session-kept Gene / Sample objects (an API user keeps these)."""
    from aldy.common import parse_cn_region
    from aldy.gene import Gene
    from aldy.profile import Profile
    from aldy.sam import Sample

    seg = ctx.seg
    wd, man = _paths(seg)
    key = (gname, sname)
    if key in ctx.samples:
        return ctx.genes[gname], ctx.samples[key]
    if gname not in ctx.genes:
        ctx.genes[gname] = Gene(os.path.join(wd, man["db"][gname]), genome=seg["build"])
        ctx.snap["gene", gname] = canon.gene(ctx.genes[gname])
    g = ctx.genes[gname]
    prof, cnr = _profile_args(seg)
    profile = Profile.load(g, prof, parse_cn_region(cnr) if cnr else None, **seg["params"])
    s = Sample(g, profile, os.path.join(wd, man["samples"][sname]))
    ctx.samples[key] = s
    ctx.snap["cov", key] = canon.coverage(s.coverage, full=True)
    ctx.snap["gene", gname] = canon.gene(g)
    return g, s


def _state_changes(ctx, after):
    out = []
    for (kind, key), snap in ctx.snap.items():
        ctx.state_checks += 1
        if kind == "gene":
            now = canon.gene(ctx.genes[key])
        else:
            now = canon.coverage(ctx.samples[key].coverage, full=True)
        d = None if snap == now else canon.first_diff(snap, now)
        if d:
            out.append({"what": f"{kind}:{key if isinstance(key, str) else key[0]}", "diff": d[:300],
                        "after": after})
            ctx.snap[kind, key] = now  # report each change once
    return out


def _stages(ctx, gname, sname):
    """estimate_cn -> estimate_major -> estimate_minor on session-kept objects."""
    import aldy.cn
    import aldy.major
    import aldy.minor
    from aldy.common import SOLUTION_PRECISION

    key = (gname, sname)
    if key in ctx.stage:
        return ctx.stage[key]
    g, s = _load(ctx, gname, sname)
    st = {"cn": [], "majors": [], "minors": [], "exc": None}
    try:
        cns = aldy.cn.estimate_cn(g, s.profile, s.coverage, solver="cbc")
        cns = sorted(cns, key=lambda m: (int(1000 * m.score), m._solution_nice()))
        st["cn"] = cns
        for i, c in enumerate(cns):
            st["majors"] += aldy.major.estimate_major(g, s.coverage, c, solver="cbc", identifier=i)
        if st["majors"]:
            st["minors"] = aldy.minor.estimate_minor(
                g, s.coverage, st["majors"], "cbc", max_solutions=s.profile.max_minor_solutions
            )
    except Exception as ex:
        st["exc"] = O.exc_info(ex)
    ctx.stage[key] = st
    return st


def _candidates(ctx, gname, sname):
    """Candidate major solutions with different gene structures: the real stage
    results plus estimate_major() for user-chosen structures (what --cn does)."""
    import aldy.major
    from aldy.solutions import CNSolution

    key = ("cands", gname, sname)
    if key in ctx.stage:
        return ctx.stage[key]
    st = _stages(ctx, gname, sname)
    g, s = _load(ctx, gname, sname)
    cands = list(st["majors"])[:3]
    if len(cands) >= 2:
        # candidates need not share their structure OBJECT (hand-built, copied or unpickled one by one they do
        # not): the second one gets a structure of its own that is equal in value
        from aldy.solutions import MajorSolution

        m1 = cands[1]
        own = CNSolution(g, m1.cn_solution.score, list(m1.cn_solution.solution.elements()))
        cands[1] = MajorSolution(m1.score, m1.solution, own, m1.added)
    seen = {_cand_key(m) for m in cands}
    alts = [["1"] * k for k in (2, 3, 1)]
    for cn, c in g.cn_configs.items():
        if cn != "1" and str(c.kind).endswith("FUSION"):
            alts.append(["1", cn])
    for i, alt in enumerate(alts):
        if len(cands) >= 5:
            break
        try:
            ms = aldy.major.estimate_major(g, s.coverage, CNSolution(g, 0, alt), solver="cbc",
                                           identifier=100 + i)
        except Exception:
            continue
        for m in ms[:1]:
            if _cand_key(m) not in seen:
                seen.add(_cand_key(m))
                cands.append(m)
    ctx.stage[key] = cands
    return cands


def _cand_key(m):
    return canon.jdump([canon.cn_solution(m.cn_solution)["solution"],
                        [[a["major"], n] for a, n in canon.major_solution(m)["solution"]],
                        canon.muts(m.added)])


def _op(ctx, op):
    from aldy.common import parse_cn_region

    seg = ctx.seg
    wd, man = _paths(seg)
    rd = seg["rundir"]
    kind = op["op"]
    r = {}
    nstage0 = len(SIM.stage_calls)
    if kind == "shipped":
        from aldy.common import script_path

        fn, gname, prof = SHIPPED[op["what"]]
        ctx.nout = getattr(ctx, "nout", 0) + 1
        outp = os.path.join(rd, f"out{seg['tag']}-{ctx.nout}.{op['out']}")
        rec = O.run_genotype(gname, script_path(f"aldy.tests.resources/{fn}"), prof, outp)
        rec.pop("_raw", None)
        r.update(rec)
        r["gene_digests"] = {}
        r["_chg"] = []
    elif kind in ("genotype", "multi", "debug"):
        prof, cnr = _profile_args(seg)
        if op.get("exome"):
            # (where the shipped profile knows the database, the neutral region is the simulated one)
            prof, cnr = op["exome"], (man["neutral"] if seg["world"].get("exome_ok") else None)
        def dbpath(g_):
            p_ = os.path.join(wd, man["db"][g_])
            if op.get("mixed_path"):
                # the same database reached through a directory whose name has upper-case letters
                d_ = os.path.join(rd, "Db-Mixed")
                os.makedirs(d_, exist_ok=True)
                q_ = os.path.join(d_, os.path.basename(p_))
                if not os.path.lexists(q_):
                    os.symlink(p_, q_)
                return q_
            return p_

        if kind == "multi":
            db = ",".join(dbpath(g) for g in op["genes"])
        else:
            db = dbpath(op["gene"])
        outp = None
        if op["out"] != "none":
            ctx.nout = getattr(ctx, "nout", 0) + 1
            outp = os.path.join(rd, f"out{seg['tag']}-{ctx.nout}.{op['out']}")
        dbg = None
        if kind == "debug":
            dbg = os.path.join(rd, f"dbg{seg['tag']}-{getattr(ctx, 'nout', 0)}")
        # observe the objects genotype() builds internally
        watched = []

        def hook(entry):
            if entry["stage"] == "estimate_cn":
                a = entry["args"][0]
                g0, cov0 = a[0], a[2]
                watched.append((g0, canon.gene(g0), cov0,
                                canon.coverage(cov0, full=True) if cov0 is not None else None))

        SIM.stage_hook = hook
        try:
            rec = O.run_genotype(db, os.path.join(wd, man["samples"][op["sample"]]), prof, outp,
                                 cn_region=cnr, genome=seg["build"] if seg["build"] != "hg19" else None,
                                 debug=dbg, params=dict(seg["params"], indelpost=False) if op.get("indelpost_off")
                                 else seg["params"])
        finally:
            SIM.stage_hook = None
        rec.pop("_raw", None)
        r.update(rec)
        if r.get("exc") and r["exc"].get("msg"):
            r["exc"]["msg"] = r["exc"]["msg"].replace(rd, "<run>").replace(wd, "<world>")
        r["gene_digests"] = {}
        chg = []
        for g0, gs, cov0, cs in watched:
            ctx.state_checks += 2
            r["gene_digests"][g0.name] = canon.digest(gs)
            now = canon.gene(g0)
            d = None if gs == now else canon.first_diff(gs, now)
            if d:
                chg.append({"what": f"gene:{g0.name}", "diff": d[:300], "after": "genotype()"})
            if cov0 is not None:
                now = canon.coverage(cov0, full=True)
                d = None if cs == now else canon.first_diff(cs, now)
                if d:
                    chg.append({"what": f"cov:{g0.name}", "diff": d[:300], "after": "genotype()"})
        r["_chg"] = chg
    elif kind == "stages":
        st = _stages(ctx, op["gene"], op["sample"])
        r["result"] = {
            "cn": [canon.cn_solution(c) for c in st["cn"]],
            "majors": sorted((canon.major_solution(m) for m in st["majors"]), key=canon.jdump),
            "minors": [canon.minor_solution(m) for m in st["minors"]],
        }
        r["exc"] = st["exc"]
    elif kind == "accessors":
        r["result"] = _accessors(ctx, op)
    elif kind == "writers":
        from aldy import diplotype

        st = _stages(ctx, op["gene"], op["sample"])
        g, s = _load(ctx, op["gene"], op["sample"])
        buf = io.StringIO()
        for i, m in enumerate(st["minors"]):
            diplotype.write_decomposition(s.name, g, s.coverage, i + 1, m, buf)
        if st["minors"]:
            diplotype.write_vcf(s.name, g, s.coverage, st["minors"], buf)
        r["result"] = None
        r["output"] = buf.getvalue()
    elif kind == "query":
        from aldy.query import query

        g, s = _load(ctx, op["gene"], op["sample"])
        q = op["q"]
        valid = set(map(str.lower, g.cn_configs)) | set(map(str.lower, g.alleles)) | {
            m.lower() for a in g.alleles.values() for m in a.minors}
        if q and q.lower() not in valid:
            q = ""
        query(g, q)
        r["result"] = None
    elif kind == "minor_order":
        import aldy.minor

        g, s = _load(ctx, op["gene"], op["sample"])
        cands = list(_candidates(ctx, op["gene"], op["sample"]))
        n = len(cands)
        order = list(range(n))
        prng = random.Random(op["perm_seed"])
        mode = op["mode"] if n > 1 else "natural"
        if mode == "perm":
            prng.shuffle(order)
        elif mode == "reverse":
            order.reverse()
        elif mode == "subset":
            k = prng.randint(1, n - 1)
            order = sorted(prng.sample(order, k))
        r["order"] = order
        r["order_kind"] = "subset" if mode == "subset" else "order"
        r["n_candidates"] = n
        r["n_structures"] = len({canon.jdump(canon.cn_solution(m.cn_solution)["solution"]) for m in cands})
        def refine(idxs):
            out = {}
            sel = [cands[j] for j in idxs]
            res = aldy.minor.estimate_minor(g, s.coverage, sel, "cbc", max_solutions=1)
            min_score = min(m.score for m in sel)
            for m_ in sel:
                out.setdefault(_cand_key(m_), [])  # (a candidate without any refinement is a result too)
            for ms in res:
                key = _cand_key(ms.major_solution)
                c = canon.minor_solution(ms)
                c["score"] = ms.score - (ms.major_solution.score - min_score)
                c["major"]["score"] = 0.0
                c["major"]["cn"]["score"] = 0.0
                out.setdefault(key, []).append(c)
            return out

        ref, nat = {}, {}
        r["rotations"] = []
        if n:
            try:
                nat = refine(list(range(n)))
                ref = refine(order) if order != list(range(n)) else nat
                if op.get("each_first") and n > 1:
                    for j in range(1, n):
                        o2 = [j] + [i for i in range(n) if i != j]
                        r["rotations"].append([o2, refine(o2)])
            except Exception as ex:
                r["exc"] = O.exc_info(ex)
        r["natural"] = nat
        r["refinements"] = ref
    else:
        raise ValueError(kind)
    r["state_changes"] = r.pop("_chg", []) + _state_changes(ctx, kind)
    r["state_checks"] = ctx.state_checks
    ctx.state_checks = 0
    return r


def _accessors(ctx, op):
    """Call every public accessor; the return values are rendered so that they can
    be compared across environments."""
    from aldy.coverage import Coverage
    from aldy.gene import Mutation

    st = _stages(ctx, op["gene"], op["sample"])
    g, s = _load(ctx, op["gene"], op["sample"])
    cov = s.coverage
    out = {}
    wide = g.get_wide_region()
    some_pos = sorted(g.chr_to_ref)[:: max(1, len(g.chr_to_ref) // 7)]
    muts = sorted(g.mutations)
    out["gene"] = [
        [str(g), repr(g), g.deletion_allele(), list(wide), g[wide.start : wide.start + 5], g[some_pos[0]]],
        [[p, g.region_at(p), p in g] for p in some_pos],
        [[list(m), g.get_functional(m), g.is_functional(m), g.is_functional(m, False),
          g.get_rsid(m), g.get_rsid(*m, default=False), g.get_refseq(m), g.get_refseq(m, from_atg=True)]
         for m in muts],
        [[a, g.has_coverage(a, p)] for a in sorted(g.alleles) for p in some_pos[:3]],
        [[n, (lambda x: [x[0].name, x[1].name] if x else None)(g.get_allele(n))]
         for a in g.alleles.values() for n in sorted(a.minors)],
        [[a, mi, sorted(map(list, g.alleles[a].get_minor_mutations(mi)))]
         for a in sorted(g.alleles) for mi in sorted(g.alleles[a].minors)],
    ]
    out["cn"] = [[c._solution_nice(), str(c), c.max_cn(), hash(c) == hash(c),
                  [c.position_cn(p) for p in some_pos]] for c in st["cn"]]
    out["major"] = [[m._solution_nice(), str(m), hash(m) == hash(m)] for m in st["majors"]]
    mo = []
    for ms in st["minors"]:
        row = [ms._solution_nice(), str(ms), ms.get_major_diplotype(), ms.get_minor_diplotype(),
               ms.get_minor_diplotype(legacy=True), [list(x) for x in ms.get_diplotype()]]
        for i, a in enumerate(ms.solution):
            row.append([ms.get_major_name(i), ms.get_minor_name(i), ms.get_minor_name(i, True),
                        a.major_repr(), str(a), hash(a) == hash(a),
                        sorted(map(list, a.mutations()))])
        row.append(sorted([list(m), n, round(c, 6)] for m, n, c in ms.get_mutation_coverages(cov)))
        mo.append(row)
    out["minor"] = mo
    pos = sorted(cov._coverage)[:: max(1, len(cov._coverage) // 9)]
    lines = []
    cov.dump(lines.append)
    f1 = cov.filtered(Coverage.quality_filter)
    out["coverage"] = [
        [[p, cov.total(p)] for p in pos],
        [[list(m), cov[Mutation(*m)], cov.coverage(Mutation(*m)), cov.total(Mutation(*m)),
          round(cov.percentage(Mutation(*m)), 6), cov.basic_filter(Mutation(*m)),
          len(cov.quality_filter(Mutation(*m)))] for m in muts],
        round(cov.average_coverage(), 6),
        round(cov.diploid_avg_coverage(), 6) if cov.profile.cn_region else None,
        [[gi, r, round(cov.region_coverage(gi, r), 9)] for gi, gr in enumerate(g.regions) for r in gr],
        [[round(cov.single_copy(p, c), 6) for p in pos[:4]] for c in st["cn"]],
        canon.digest(lines),
        canon.coverage(f1)["coverage"],
    ]
    return out


def run_segment(seg):
    from .. import seams

    if seg["kind"] == "materialise":
        return O.materialise(seg["world"], seg["dir"], seg["samples"], build=seg["build"])
    ft = seams.install_clock(seg.get("clock") or {})
    rd = seg["rundir"]
    os.makedirs(rd, exist_ok=True)
    cwd = {"run": rd, "world": seg["worlddir"], "root": "/"}[seg.get("cwd", "run")]
    os.chdir(cwd)
    if seg.get("tmp") == "run":
        import tempfile

        t = os.path.join(rd, f"tmp-{seg['tag']}")
        os.makedirs(t, exist_ok=True)
        os.environ["TMPDIR"] = t
        tempfile.tempdir = t
    ctx = Ctx(seg)
    res = {"ops": []}
    for op in seg["ops"]:
        res["ops"].append(_op(ctx, op))
    res["solver"] = O.solver_summary()
    res["solver"].pop("solve_log")
    res["clock_reads"] = ft.reads
    res["clock_backward"] = ft.backward
    res["clock_span"] = ft.span
    return res

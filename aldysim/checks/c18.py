"""C18 - model parameters take the values the user gave, through every route.

Histories: a profile is written with parameters in one process segment and loaded in
another (different hash seed); a run is made through the CLI, through the API, with
an options section, with options + explicit parameters, and from a debug archive
with parameters.  Reference model: a typed dict updated by the documented rules.
Observation: the Profile object the run actually used (stage seam) and the YAML text.
"""

import copy
import os
import random

from .. import canon
from .. import ops as O
from .. import workload as WL
from .. import world as W
from ..seams import SIM

ID = "C18"
LEVEL = "exploration"
SEGMENT_TIMEOUT = 180
TIERS = {
    "quick": dict(plans=160, budget_s=70, worlds=3, det_plans=2),
    "thorough": dict(plans=12000, budget_s=900, worlds=40, det_plans=8, always_selftest=True),
}

# documented parameters (aldy/profile.py docstrings): name -> (type, sample values)
PARAMS = {
    "gap": ("float", [0.1, 0.25]),
    "threshold": ("float", [0.4, 0.45, 0.4321987]),
    "min_coverage": ("float", [3, 2.5]),
    "min_quality": ("int", [12, 9]),
    "min_mapq": ("int", [20, 5]),
    "phase": ("bool", [True, False]),
    "sam_long_reads": ("bool", [False]),
    "sam_mappy_preset": ("str", ["map-ont", "map-hifi"]),
    "cn_max": ("int", [10, 15]),
    "cn_pce_penalty": ("float", [1.5, 2.5]),
    "cn_diff": ("float", [9.0, 11]),
    "cn_fit": ("float", [1.5, 0.75, 1.0000001]),
    "cn_parsimony": ("float", [0.6, 0.4]),
    "cn_fusion_left": ("float", [0.4, 0.6]),
    "cn_fusion_right": ("float", [0.3, 0.2]),
    "major_novel": ("float", [20.0, 22]),
    "minor_miss": ("float", [1.4, 1.6]),
    "minor_add": ("float", [1.1, 0.9, 1.23456789]),
    "minor_phase": ("float", [0.3, 0.5]),
    "minor_phase_vars": ("int", [2000, 2500]),
    "male": ("bool", [True, False]),
    "max_minor_solutions": ("int", [2, 1]),
    "display_format": ("bool", [True, False]),
    # (string values are taken as given, capitals included: the documentation's own example is I223M)
    "debug_probe": ("str", ["", "zzz", "I223M", "Zz9"]),
    "debug_novel": ("bool", [True, False]),
    "min_avg_coverage": ("float", [3.0, 1]),
    "vcf_sample_idx": ("int", [1, 0]),
    "indelpost": ("bool", [True, False]),
    # the profile's joint depth of the neutral region: documented attribute like the others; a profile file has
    # its own value (neutral: value:), an explicit setting must win over it like over any other default
    "neutral_value": ("float", [150000.0, 98765.5, 2415408.5]),
}
OPTS_NAME = "Lab-Opts.yml"  # (a profile file of the user's, capitals in its name)
ROUTES = ["profile_api", "genotype_api", "cli", "options", "options_explicit", "roundtrip", "dump",
          "profile_api", "genotype_api", "cli", "options", "options_explicit", "roundtrip", "dump", "profile_cli",
          "exome"]
MALFORMED = [("gap", "abc"), ("phase", "maybe"), ("min_quality", "x"), ("cn_max", "1.5x"), ("male", "2"),
             ("threshold", ""), ("indelpost", "no-way"),
             # a number with a fraction for a whole-number parameter (native in the interface and in an options
             # section, text on the command line): not "the given value" if taken, so it has to be refused
             ("min_quality", 12.7), ("cn_max", 10.5), ("max_minor_solutions", 1.5), ("min_mapq", "7.5")]


def spell(rng, typ, v, strings_only):
    """A spelling of value v the statement allows; returns (given, expected)."""
    if typ == "bool":
        forms = [str(v), str(v).lower(), str(v).upper(), "1" if v else "0"]
        if not strings_only:
            forms += [v, 1 if v else 0]
        return rng.choice(forms), bool(v)
    if typ == "int":
        forms = [str(int(v)), str(int(v)), "+%d" % int(v)]
        if not strings_only:
            forms += [int(v), int(v)]
        return rng.choice(forms), int(v)
    if typ == "float":
        # every spelling float() reads as this number: plain, repr, signed, exponent notation
        forms = [str(v), repr(float(v)), "+" + repr(float(v)), "%e" % v, "%E" % v, "%.3e" % v]
        forms = [f for f in forms if float(f) == float(v)]
        if not strings_only:
            forms += [v, float(v), v, float(v)]
        return rng.choice(forms), float(v)
    return str(v), str(v)


def gen_world(seed, wi, exome=False):
    rng = random.Random(f"C18:{seed}:w:{wi}:{int(exome)}")
    if exome:
        # a database the shipped "illumina" profile knows by name and region names: the technology
        # profiles given by name (exome / wxs / wes) work on it
        world = WL.one_gene_world(rng, small=True, gene_len=420, n_variants=4, n_major=2, lfusion=False,
                                  rfusion=False, ambiguous=False, name="NUDT15", n_exons=3, pseudo=False,
                                  deletion=True, cn_subset=False)
    else:
        world = WL.one_gene_world(rng, small=True, gene_len=420, n_variants=4, n_major=2, lfusion=False,
                                  rfusion=False, ambiguous=False)
    g = world["genes"][0]
    smp = {"name": "s0", "genes": {g["name"]: [{"type": "normal", "allele": "1.001"},
                                               {"type": "normal", "allele": g["alleles"][-1]["name"]
                                                if g["alleles"][-1]["kind"] == "normal" else "1.001"}]},
           "phase_seed": 3}
    return {"world": world, "samples": {"s0": smp}, "build": "hg19"}


def gen_plan(rng, tier, i, seed):
    cfg = TIERS[tier]
    route = ROUTES[i % len(ROUTES)]
    if i % 48 == 5:
        # the one parameter that is consumed while the input is read: which sample of a multi-sample VCF
        given, exp = spell(rng, "int", 1, rng.random() < 0.5)
        return {"w": gen_world(seed, i % cfg["worlds"]), "route": "vcf", "settings": [["vcf_sample_idx", given, exp, "int"]],
                "options": [], "extra": None, "dashes": rng.random() < 0.5, "prior": False, "vcf_cli": rng.random() < 0.5,
                "write_hashseed": 0, "read_hashseed": rng.choice([0, 1, 2, 3])}
    if i % 48 == 29:
        route = "vcf_options"  # VCF input together with a profile file that has an options section
    strings_only = route in ("cli", "dump", "profile_cli", "exome")
    names = rng.sample(sorted(PARAMS), rng.randint(1, 5))
    if route == "exome" and rng.random() < 0.6 and "min_coverage" not in names:
        names.append("min_coverage")  # the technology profile has its own idea of this one
    settings = []
    for n in names:
        typ, vals = PARAMS[n]
        given, exp = spell(rng, typ, rng.choice(vals), strings_only)
        settings.append([n, given, exp, typ])
    options = []
    if route in ("options", "options_explicit", "vcf_options"):
        onames = rng.sample(sorted(PARAMS), rng.randint(1, 4))
        if route == "options_explicit" and names and rng.random() < 0.8:
            onames = list(dict.fromkeys(onames + [names[0]]))  # overlap: explicit must win
        for n in onames:
            typ, vals = PARAMS[n]
            given, exp = spell(rng, typ, rng.choice(vals), False)
            options.append([n, given, exp, typ])
        if route == "options":
            settings = []
    empty_options = route == "options_explicit" and rng.random() < 0.15
    if empty_options:
        options = []  # the file has an `options:` key with nothing under it
    if route == "vcf_options":
        # (the shipped file has one sample: which sample is read is the business of route "vcf")
        settings = [x for x in settings if x[0] != "vcf_sample_idx"]
        options = [x for x in options if x[0] != "vcf_sample_idx"]
    extra = None
    r = rng.random()
    if r < 0.15:
        extra = ["unknown", rng.choice(["foo", "gapp", "min-qualityy", "Phase"]), rng.choice(["1", "x", "true"])]
        if route in ("cli", "dump", "options", "options_explicit", "profile_api", "roundtrip") and rng.random() < 0.4:
            # names that are no model parameters but mean something else to the program (arguments of the run,
            # fields of the profile object): unknown names all the same
            pool = ["name", "data"] if route in ("options", "options_explicit", "profile_api", "roundtrip") else \
                ["debug", "report", "solver", "genome", "name", "data", "is_simple", "output_file", "gene_db",
                 "profile_name", "sam_path", "multiple_warn_level"]
            extra = ["unknown", rng.choice(pool), rng.choice(["1", "x", "true"])]
    elif r < 0.35:
        n, v = rng.choice(MALFORMED)
        extra = ["malformed", n, v]
    if route in ("cli", "dump") and (i // len(ROUTES)) % 2 == 1:
        # every second command-line plan: an unknown name that is an argument of the run itself (walks the list)
        cli_names = ["debug", "report", "is_simple", "output_file", "gene_db", "profile_name", "sam_path",
                     "cn_region", "solver", "genome", "reference", "multiple_warn_level"]
        extra = ["unknown", cli_names[(i // (2 * len(ROUTES))) % len(cli_names)], "x"]
    force_cn = False
    if route in ("options", "options_explicit") and (i // len(ROUTES)) % 3 == 2:
        # an unknown name that is a field of the profile object, together with a user-supplied structure (the
        # profile is then built by the run itself, not by Profile.load)
        extra = ["unknown", ["name", "data", "name"][(i // (3 * len(ROUTES))) % 3], "1"]
        force_cn = True
    if extra:
        # the extra entry must be the only one of its name (a dict cannot hold the name twice)
        settings = [x for x in settings if x[0] != extra[1]]
        options = [x for x in options if x[0] != extra[1]]
    # history: an earlier version of the same profile file (other values) was loaded by the same process
    prior = route in ("roundtrip", "options", "options_explicit", "profile_cli") and rng.random() < 0.5
    return {"w": gen_world(seed, i % cfg["worlds"], exome=(route == "exome")), "route": route,
            "settings": settings, "options": options, "prior": prior, "empty_options": empty_options,
            # the gene structure is supplied by the user as well (--cn): the profile file's options must count all the same
            "with_cn": (route in ("options", "options_explicit", "exome") and rng.random() < 0.3) or force_cn,
            "exome_name": rng.choice(["exome", "wxs", "wes"]), "exome_cli": rng.random() < 0.5,
            "extra_pos": rng.choice(["first", "first", "middle", "last"]),
            "extra": extra, "dashes": rng.random() < (0.6 if route in ("cli", "profile_cli", "dump") else 0.3),
            "write_hashseed": rng.choice([0, 1, 2, 3]), "read_hashseed": rng.choice([0, 1, 2, 3, 4, 5])}


def _materialise(runner, w):
    wd = canon.digest([w["world"], w["samples"], w["build"]])

    def make():
        d = os.path.join(runner.root, f"world-{wd}")
        return d, runner.segment({"kind": "materialise", "hashseed": 0, "world": w["world"],
                                  "samples": w["samples"], "build": w["build"], "dir": d})

    return wd, runner.memoised(("world", wd), make)


def execute(plan, runner, rundir):
    w = plan["w"]
    wd, (worlddir, man) = _materialise(runner, w)
    common = {"worlddir": worlddir, "man": man, "rundir": rundir, "gene": w["world"]["genes"][0]["name"],
              "route": plan["route"], "settings": plan["settings"], "options": plan["options"],
              "extra": plan["extra"], "dashes": plan["dashes"], "prior": plan.get("prior", False),
              "exome_name": plan.get("exome_name"), "exome_cli": plan.get("exome_cli"),
              "extra_pos": plan.get("extra_pos"), "vcf_cli": plan.get("vcf_cli"),
              "empty_options": plan.get("empty_options"), "with_cn": plan.get("with_cn")}
    res = {}
    if plan["route"] in ("roundtrip", "dump", "options", "options_explicit", "profile_cli", "vcf_options"):
        res["write"] = runner.segment(dict(common, kind="write", hashseed=plan["write_hashseed"]))
    res["read"] = runner.segment(dict(common, kind="read", hashseed=plan["read_hashseed"],
                                      written=res.get("write")))
    return res


def _v(clause, **detail):
    return {"clause": clause, "detail": detail}


def _same(got, exp, typ):
    if typ == "bool":
        return got is exp
    if typ == "int":
        return type(got) is int and got == exp
    if typ == "float":
        return type(got) is float and abs(got - exp) < 1e-12
    return type(got) is str and got == exp


def expected_table(plan):
    """Reference model: explicit parameter beats options section beats default."""
    exp = {}
    for n, given, e, typ in plan["options"]:
        exp[n] = (e, typ, "options", given)
    for n, given, e, typ in plan["settings"]:
        exp[n] = (e, typ, "explicit", given)
    return exp


def _judge_profile_cli(plan, outcome, env, malformed):
    vs = []
    wr = outcome["write"]
    if malformed:
        if wr.get("wrote_profile"):
            vs.append(_v("malformed value was not rejected with an error", name=plan["extra"][1],
                         value=plan["extra"][2], **env))
        return vs
    for n, given, e, typ in plan["settings"]:
        got = wr["options_text"].get(n, "<missing>")
        if not _same(got, e, typ):
            vs.append(_v("written profile does not carry the parameter value", name=n, given=given,
                         expected=e, got=got, dashes=plan["dashes"], **env))
    given_names = {n for n, *_ in plan["settings"]} | ({plan["extra"][1]} if plan["extra"] else set())
    stray = sorted(set(wr["options_text"]) - given_names)
    if stray:
        vs.append(_v("written profile carries a parameter that this call did not set", names=stray,
                     values=[wr["options_text"][n] for n in stray], earlier_call_in_process=wr.get("prior_cli"), **env))
    return vs


def judge(plan, outcome):
    vs = []
    rd = outcome["read"]
    env = {"route": plan["route"], "extra": plan["extra"], "earlier_version_loaded": bool(plan.get("prior")),
           "structure_supplied_by_user": bool(plan.get("with_cn"))}
    exp = expected_table(plan)
    malformed = plan["extra"] and plan["extra"][0] == "malformed"
    if plan["route"] == "profile_cli":
        return _judge_profile_cli(plan, outcome, env, malformed)
    if plan["route"] == "vcf":
        v = rd.get("vcf") or {}
        given = plan["settings"][0][1]
        if v.get("reference", [None])[0] != "ok":
            return vs  # the shipped file could not be genotyped at all: nothing to compare with
        if v["asked"] != v["reference"]:
            vs.append(_v("parameter does not have the given value where it is used", name="vcf_sample_idx", given=given,
                         expected_call=v["reference"][1], got=v["asked"], default_sample_call=v["default_of_two"][1:],
                         **env))
        if v["out_of_range"][0] != "exc" or not (v["out_of_range"][1] or {}).get("aldy"):
            vs.append(_v("a sample index beyond the samples of the file was not refused with an error",
                         given=given, got=v["out_of_range"], **env))
        return vs
    if malformed:
        if not rd["rejected"]:
            vs.append(_v("malformed value was not rejected with an error", name=plan["extra"][1],
                         value=plan["extra"][2], observed=rd["observed"].get(plan["extra"][1]), **env))
        return vs
    if rd["rejected"]:
        vs.append(_v("well-formed parameters were rejected", error=rd["rejected"], settings=plan["settings"],
                     options=plan["options"], **env))
        return vs
    if rd.get("crash") and not rd["observed"]:
        vs.append(_v("well-formed parameters ended the run with an unexpected (non-Aldy) error",
                     error={k: rd["crash"].get(k) for k in ("type", "msg")}, settings=plan["settings"],
                     options=plan["options"], empty_options_section=bool(plan.get("empty_options")), **env))
        return vs
    if not rd["observed"]:
        return vs  # the run did not get as far as the first stage: nothing observed
    for n, (e, typ, src, given) in sorted(exp.items()):
        got = rd["observed"].get(n, "<missing>")
        if not _same(got, e, typ):
            vs.append(_v("parameter does not have the given value and type", name=n, given=given,
                         given_type=type(given).__name__, source=src, expected=e, got=got,
                         got_type=type(got).__name__, **env))
    # untouched parameters keep their defaults
    for n, d in rd["defaults"].items():
        if n == "neutral_value":
            continue  # (measured / read from the profile file unless somebody sets it)
        if n not in exp and n in rd["observed"] and rd["observed"][n] != d and n not in rd.get("forced", []):
            vs.append(_v("a parameter nobody set differs from its default", name=n, got=rd["observed"][n],
                         default=d, **env))
    # the written profile carries the same values
    if plan["route"] == "roundtrip" and outcome.get("write"):
        wr = outcome["write"]["options_text"]
        for n, given, e, typ in plan["settings"]:
            got = wr.get(n, "<missing>")
            if not _same(got, e, typ):
                vs.append(_v("written profile does not carry the parameter value", name=n, given=given,
                             expected=e, got=got, **env))
    return vs


def signature(v):
    d = v["detail"]
    sig = {"clause": v["clause"]}
    if "name" in d and v["clause"].startswith("parameter does not"):
        sig["kind"] = PARAMS.get(d["name"], ("?",))[0]
        sig["given_type"] = d.get("given_type")
    if v["clause"].startswith("malformed"):
        sig["kind"] = PARAMS.get(d["name"], ("?",))[0]
    if v["clause"].startswith("well-formed parameters ended"):
        sig["error"] = (d.get("error") or {}).get("type")
        sig["empty_options_section"] = d.get("empty_options_section")
    return sig


def shrink(plan):
    for i in range(len(plan["settings"])):
        if len(plan["settings"]) + len(plan["options"]) > 1:
            p = copy.deepcopy(plan)
            del p["settings"][i]
            yield p
    for i in range(len(plan["options"])):
        if len(plan["settings"]) + len(plan["options"]) > 1:
            p = copy.deepcopy(plan)
            del p["options"][i]
            yield p
    if plan["extra"] and plan["extra"][0] == "unknown":
        p = copy.deepcopy(plan)
        p["extra"] = None
        yield p
    if plan["read_hashseed"] or plan["write_hashseed"]:
        p = copy.deepcopy(plan)
        p["read_hashseed"] = p["write_hashseed"] = 0
        yield p
    if plan.get("prior"):
        p = copy.deepcopy(plan)
        p["prior"] = False
        yield p


def new_stats():
    return {"plans": 0, "routes": {}, "cells": set(), "malformed": 0, "unknown": 0, "observed": 0,
            "unobserved": 0, "restarts": 0, "overlap": 0, "false_bools": 0}


def count_evaluations(plan, out):
    return max(1, len(plan["settings"]) + len(plan["options"]))


def update_stats(acc, plan, out):
    acc["plans"] += 1
    acc["routes"][plan["route"]] = acc["routes"].get(plan["route"], 0) + 1
    for n, given, e, typ in plan["settings"] + plan["options"]:
        acc["cells"].add((plan["route"], n, type(given).__name__, str(given).lower() if typ == "bool" else ""))
        if typ == "bool" and e is False:
            acc["false_bools"] += 1
    if plan["extra"]:
        acc[plan["extra"][0]] += 1
    if out["read"]["observed"]:
        acc["observed"] += 1
    else:
        acc["unobserved"] += 1
    if "write" in out:
        acc["restarts"] += 1
    if out["read"].get("prior_loaded"):
        acc["prior"] = acc.get("prior", 0) + 1
    if {s[0] for s in plan["settings"]} & {o[0] for o in plan["options"]}:
        acc["overlap"] += 1


def sample_view(plan, out):
    return {"route": plan["route"], "settings": plan["settings"], "options": plan["options"],
            "extra": plan["extra"], "observed": {k: out["read"]["observed"].get(k) for k, *_ in
                                                 plan["settings"] + plan["options"]},
            "rejected": out["read"]["rejected"]}


def evidence(acc):
    return {
        "coverage": {
            "distinct_nontrivial": len(acc["cells"]),
            "rule": "one evaluation = one parameter setting observed on the Profile object a run used (or in the "
                    "written YAML); distinct_nontrivial = distinct (route, parameter, type of the given value, "
                    "boolean spelling) cells",
            "plans": acc["plans"],
            "routes": acc["routes"],
            "fault_kinds_fired": {"process_restart_between_writer_and_reader": acc["restarts"],
                                  "malformed_value": acc["malformed"], "unknown_name": acc["unknown"],
                                  "earlier_version_of_the_same_file_loaded_first": acc.get("prior", 0)},
            "probes": {"runs_with_observed_profile": acc["observed"], "runs_unobserved": acc["unobserved"],
                       "options_and_explicit_overlap": acc["overlap"], "booleans_set_to_false": acc["false_bools"]},
            "components": {
                "real": ["aldy.profile.Profile / Profile.load / get_sam_profile_data", "aldy.__main__.main --param parsing",
                         "aldy.genotype.genotype", "PyYAML", "debug archive writer / reader"],
                "stub": ["recording wrapper around estimate_cn (reads the Profile in use)"],
            },
        },
        "assumptions": [
            "ambiguous cases are not generated (float given for an int parameter, cn_solution strings)",
            "sam_long_reads is only ever set to false (true switches to the long-read loader, which needs hg38 + mappy index)",
        ],
    }


# ---------------------------------------------------------------------------
# child side


def _profile_attrs(p):
    out = {}
    for n in PARAMS:
        v = getattr(p, n, "<missing>")
        out[n] = v if isinstance(v, (bool, int, float, str)) else repr(v)
    return out


def _options_yaml(src, dst, options, unknown_first=False, empty=False):
    """Copy a profile YAML adding an `options:` section (hand-written by the user)."""
    import yaml

    d = yaml.safe_load(open(src))
    d["options"] = {n: given for n, given, e, typ in options}
    if empty and not options:
        d["options"] = None  # "options:" and nothing below it
    elif unknown_first:
        d["options"] = dict([("lab_note", "kept for the record")] + list(d["options"].items()))
    with open(dst, "w") as f:
        f.write(yaml.dump(d, default_flow_style=None, sort_keys=False))


def run_segment(seg):
    if seg["kind"] == "materialise":
        man = O.materialise(seg["world"], seg["dir"], seg["samples"], build=seg["build"], profile_yaml=True)
        man["world"] = seg["world"]
        return man
    import yaml
    from aldy.common import AldyException, parse_cn_region
    from aldy.gene import Gene
    from aldy.profile import Profile

    wd, man, rd = seg["worlddir"], seg["man"], seg["rundir"]
    os.makedirs(rd, exist_ok=True)
    os.chdir(rd)
    g = seg["gene"]
    db = os.path.join(wd, man["db"][g])
    bam = os.path.join(wd, man["samples"]["s0"])
    refbam = os.path.join(wd, man["ref_bam"])
    route = seg["route"]
    params = {n: given for n, given, e, typ in seg["settings"]}
    if seg["extra"]:
        # the unknown / malformed entry comes first, last or in between (dict order = order of application)
        items = list(params.items())
        at = {"first": 0, "last": len(items)}.get(seg.get("extra_pos") or "last", len(items) // 2)
        items.insert(at, (seg["extra"][1], seg["extra"][2]))
        params = dict(items)
    if seg["kind"] == "write":
        out = {}
        if route == "roundtrip":
            # what `aldy profile <bam> --param ...` does (profile.py:305-416, __main__.py:96-112)
            try:
                O.write_profile_yaml(man["world"], wd_copy(wd, rd), "ref.bam", "hg19", params, "written.yml")
                out["options_text"] = (yaml.safe_load(open(os.path.join(rd, "w", "written.yml"))) or {}).get("options", {})
            except AldyException as ex:
                out["rejected"] = O.exc_info(ex)
                out["options_text"] = {}
        elif route == "profile_cli":
            # the real `aldy profile` command (scans every shipped gene): its stdout is the profile
            import contextlib
            import io

            if seg.get("prior"):
                # history: the same process ran `aldy profile` a moment ago with other parameters
                prior_names = [n for n in ("gap", "min_mapq", "phase", "cn_max") if n not in params][:2]
                pargv = ["profile", refbam, "-n", man["neutral"]]
                for n in prior_names:
                    pargv += ["--param", f"{n}={ {'gap': '0.7', 'min_mapq': '33', 'phase': 'false', 'cn_max': '7'}[n] }"]
                with contextlib.redirect_stdout(io.StringIO()):
                    O.run_main(pargv)
                out["prior_cli"] = prior_names
            argv = ["profile", refbam, "-n", man["neutral"]]
            for k, v in params.items():
                kk = k.replace("_", "-") if seg.get("dashes") else k
                argv += ["--param", f"{kk}={v}"]
            buf = io.StringIO()
            with contextlib.redirect_stdout(buf):
                O.run_main(argv)
            try:
                doc = yaml.safe_load(buf.getvalue()) or {}
            except Exception:
                doc = {}
            out["options_text"] = doc.get("options", {}) if isinstance(doc, dict) else {}
            out["wrote_profile"] = isinstance(doc, dict) and "neutral" in doc
        elif route in ("options", "options_explicit", "vcf_options"):
            _options_yaml(os.path.join(wd, man["profile_yml"]), os.path.join(rd, OPTS_NAME), seg["options"],
                          unknown_first=(seg.get("extra_pos") == "first"), empty=seg.get("empty_options"))
        elif route == "dump":
            rec = O.run_main(["genotype", bam, "--gene", db, "--profile", refbam, "-n", man["neutral"],
                              "--debug", os.path.join(rd, "dbg"), "--solver", "cbc"])
            out["archive"] = os.path.exists(os.path.join(rd, "dbg.tar.gz"))
        return out
    # ---- read / run
    res = {"observed": {}, "rejected": None, "defaults": _profile_attrs(Profile("")), "forced": []}
    written = seg.get("written") or {}
    if route == "vcf":
        return _vcf_route(seg, rd, params, res)
    if route == "exome":
        # the shipped technology profile has an options section of its own: that is the baseline here
        from aldy.common import script_path

        shipped = yaml.safe_load(open(script_path("aldy.resources.profiles/illumina.yml"))).get("options") or {}
        for k_, v_ in shipped.items():
            if k_ in res["defaults"]:
                res["defaults"][k_] = v_
    if route == "profile_cli":
        return res
    if written.get("rejected"):
        res["rejected"] = written["rejected"]
        return res
    gene = Gene(db, genome="hg19")

    def observe_stage():
        for c in SIM.stage_calls:
            if c["stage"] == "estimate_cn":
                res["observed"] = _profile_attrs(c["args"][0][1])
                return

    if seg.get("prior") and route in ("roundtrip", "options", "options_explicit"):
        # the file at this path held other values a moment ago and this process loaded it then
        path = os.path.join(rd, "w", "written.yml") if route == "roundtrip" else os.path.join(rd, OPTS_NAME)
        if os.path.exists(path):
            keep = open(path).read()
            d = yaml.safe_load(keep) or {}
            names = list((d.get("options") or {})) or [n for n, *_ in seg["settings"] + seg["options"]]
            cur = d.get("options") or {}
            d["options"] = {n: ([x for x in PARAMS[n][1] if str(x).lower() != str(cur.get(n)).lower()]
                                or PARAMS[n][1])[-1] for n in names if n in PARAMS}
            with open(path, "w") as f:
                f.write(yaml.dump(d, default_flow_style=None))
            try:
                Profile.load(gene, path, None)
                res["prior_loaded"] = True
            except Exception:
                pass  # (a warm-up; the judged load follows)
            with open(path, "w") as f:
                f.write(keep)
            SIM.stage_calls.clear()
    try:
        if route == "profile_api":
            p = Profile.load(gene, refbam, parse_cn_region(man["neutral"]), **params)
            res["observed"] = _profile_attrs(p)
        elif route == "roundtrip":
            p = Profile.load(gene, os.path.join(rd, "w", "written.yml"), None)
            res["observed"] = _profile_attrs(p)
        elif route == "vcf_options":
            from aldy.common import script_path

            rec = O.run_genotype("slco1b1", script_path("aldy.tests.resources/NA07000_SLCO1B1.vcf.gz"),
                                 os.path.join(rd, OPTS_NAME), None, params=params)
            rec.pop("_raw", None)
            if rec["exc"] and not SIM.stage_calls:
                if rec["exc"].get("aldy"):
                    res["rejected"] = rec["exc"]
                else:
                    res["crash"] = rec["exc"]
            observe_stage()
        elif route in ("options", "options_explicit"):
            rec = O.run_genotype(db, bam, os.path.join(rd, OPTS_NAME), None, params=params,
                                 cn_solution=["1", "1"] if seg.get("with_cn") else None)
            rec.pop("_raw", None)
            if rec["exc"] and not SIM.stage_calls:
                if rec["exc"].get("aldy"):
                    res["rejected"] = rec["exc"]
                else:
                    res["crash"] = rec["exc"]
            observe_stage()
        elif route == "exome" and not seg.get("exome_cli"):
            # technology profile by name: copy-number calling off, everything else as the user says
            rec = O.run_genotype(db, bam, seg["exome_name"], None, cn_region=man["neutral"], params=params)
            rec.pop("_raw", None)
            if rec["exc"] and not SIM.stage_calls:
                if rec["exc"].get("aldy"):
                    res["rejected"] = rec["exc"]
                else:
                    res["crash"] = rec["exc"]
            observe_stage()
            if "min_coverage" not in params:
                res["forced"] = ["min_coverage"]  # the technology profile's own value (5) unless the user says otherwise
        elif route == "genotype_api":
            rec = O.run_genotype(db, bam, refbam, None, cn_region=man["neutral"], params=params)
            rec.pop("_raw", None)
            if rec["exc"] and not SIM.stage_calls:
                if rec["exc"].get("aldy"):
                    res["rejected"] = rec["exc"]
                else:
                    res["rejected"] = None
                    res["crash"] = rec["exc"]
            observe_stage()
        else:  # cli, dump: strings on the command line
            src = bam if route in ("cli", "exome") else os.path.join(rd, "dbg.tar.gz")
            argv = ["genotype", src, "--gene", db, "--solver", "cbc"]
            if route == "cli":
                argv += ["--profile", refbam, "-n", man["neutral"]]
            if route == "exome":
                argv += ["--profile", seg["exome_name"], "-n", man["neutral"]]
                if "min_coverage" not in params:
                    res["forced"] = ["min_coverage"]
            for k, v in params.items():
                kk = k.replace("_", "-") if seg.get("dashes") else k
                argv += ["--param", f"{kk}={v}"]
            errs = []
            import aldy.__main__ as M

            orig = M.genotype
            if hasattr(orig, "__wrapped__"):
                orig = orig.__wrapped__

            crashes = []

            def wrapped(*a, **k):
                try:
                    return orig(*a, **k)
                except AldyException as ex:
                    errs.append(O.exc_info(ex))
                    raise
                except Exception as ex:
                    crashes.append(O.exc_info(ex))
                    raise

            wrapped.__wrapped__ = orig
            M.genotype = wrapped
            rec = O.run_main(argv)
            if errs and not SIM.stage_calls:
                res["rejected"] = errs[0]
            if crashes and not SIM.stage_calls:
                res["crash"] = crashes[0]
            if not errs and not crashes and not SIM.stage_calls and (rec["exc"] or rec["exit"] not in (0, None)):
                # the command failed before the run proper began (nothing raised inside genotype())
                res["crash"] = rec["exc"] or {"type": "SystemExit", "aldy": False,
                                              "msg": f"exit status {rec['exit']}, no stage was reached"}
            observe_stage()
            if route == "dump":
                # the dump reader resets these four on purpose (sam.py:327-330)
                res["forced"] = ["display_format", "debug_probe", "debug_novel", "min_avg_coverage"]
    except AldyException as ex:
        res["rejected"] = O.exc_info(ex)
    except Exception as ex:  # Profile.load() called directly (profile_api, roundtrip)
        res["crash"] = O.exc_info(ex)
    return res


def _vcf_route(seg, rd, params, res):
    """Two-sample VCF [REFONLY, NA07000] made from the shipped single-sample file; sample no. 1 is asked for.
    The call must be the one the shipped file gives for its only sample, and sample no. 1 of the
    single-sample file must be refused."""
    import gzip

    import pysam
    from aldy.common import script_path

    src = script_path("aldy.tests.resources/NA07000_SLCO1B1.vcf.gz")
    two = os.path.join(rd, "two.vcf")
    with gzip.open(src, "rt") as fi, open(two, "w") as fo:
        for line in fi:
            f = line.rstrip("\n").split("\t")
            if line.startswith("##"):
                fo.write(line)
            elif line.startswith("#CHROM"):
                fo.write("\t".join(f[:9] + ["REFONLY"] + f[9:]) + "\n")
            else:
                fo.write("\t".join(f[:9] + ["0/0"] + f[9:]) + "\n")
    two = pysam.tabix_index(two, preset="vcf", force=True)

    def run(path, p):
        if seg.get("vcf_cli"):
            argv = ["genotype", path, "--gene", "slco1b1", "--solver", "cbc"]
            for k, v in p.items():
                argv += ["--param", f"{k.replace('_', '-') if seg.get('dashes') else k}={v}"]
            calls = []
            import aldy.__main__ as M

            orig = M.genotype
            if hasattr(orig, "__wrapped__"):
                orig = orig.__wrapped__

            def wrapped(*a, **k):
                try:
                    r_ = orig(*a, **k)
                    calls.append(["ok", [[kk, [x.get_major_diplotype() for x in vv]] for kk, vv in r_.items()]])
                    return r_
                except Exception as ex:
                    calls.append(["exc", O.exc_info(ex)])
                    raise

            wrapped.__wrapped__ = orig
            M.genotype = wrapped
            try:
                O.run_main(argv)
            finally:
                M.genotype = orig
            return calls[-1] if calls else ["none", None]
        rec = O.run_genotype("slco1b1", path, None, None, params=p)
        raw = rec.pop("_raw", None)
        if rec["exc"]:
            return ["exc", rec["exc"]]
        return ["ok", [[kk, [x.get_major_diplotype() for x in vv]] for kk, vv in (raw or {}).items()]]

    res["vcf"] = {"reference": run(src, {}), "asked": run(two, params), "default_of_two": run(two, {}),
                  "out_of_range": run(src, params)}
    for c in SIM.stage_calls:
        if c["stage"] == "estimate_cn":
            res["observed"] = _profile_attrs(c["args"][0][1])
    res["observed"] = {}
    return res


def wd_copy(wd, rd):
    """Directory holding ref.bam + databases for the profile writer (writes next to them)."""
    d = os.path.join(rd, "w")
    os.makedirs(d, exist_ok=True)
    for f in os.listdir(wd):
        if not os.path.exists(os.path.join(d, f)):
            os.symlink(os.path.join(wd, f), os.path.join(d, f))
    return d

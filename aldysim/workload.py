"""Shared end-to-end workload pieces: sample composition, noise, world options."""

import random

from . import world as W


def _ambiguous_pair(g):
    """(single-a, single-b, combined) allele names of an ambiguous catalogue."""
    normal = [a for a in g["alleles"] if a["kind"] == "normal"]
    func = lambda a: tuple(sorted(v for v in a["vars"] if g["variants"][v]["func"]))  # noqa
    by = {}
    for a in normal:
        by.setdefault(func(a), []).append(a["name"])
    for fs, names in by.items():
        if len(fs) == 2 and (fs[0],) in by and (fs[1],) in by and () in by:
            return by[(fs[0],)][0], by[(fs[1],)][0], names[0], by[()][0]
    return None


def multiallelic_pair(g):
    """Names of two ordinary alleles that carry different substitutions at one position (first such pair)."""
    normal = [a for a in g["alleles"] if a["kind"] == "normal"]
    for a in normal:
        for b in normal:
            if a["name"] >= b["name"]:
                continue
            for x in a["vars"]:
                for y in b["vars"]:
                    vx, vy = g["variants"][x], g["variants"][y]
                    if x != y and vx["g"] == vy["g"] and vx["kind"] == vy["kind"] == "snp":
                        return a["name"], b["name"]
    return None


def gen_units(rng, g):
    amb = _ambiguous_pair(g)
    if amb and rng.random() < 0.5:
        a, b, ab, ref = amb
        units = [{"type": "normal", "allele": a}, {"type": "normal", "allele": b}]
        if rng.random() < 0.5:
            units = [{"type": "normal", "allele": ab}, {"type": "normal", "allele": ref}]
        _add_noise(rng, g, units)
        return units
    units = _gen_units(rng, g)
    _add_noise(rng, g, units)
    return units


def _add_noise(rng, g, units):
    """Low-fraction extra SNPs (catalogued or not) on some copies: what the read
    filters exist for, and what makes the filters' copy-number dependence visible."""
    snps = [k for k, v in list(g["variants"].items()) + list(g.get("unused_variants", {}).items())
            if v["kind"] == "snp"]
    if not snps or rng.random() < 0.4:
        return
    for _ in range(rng.randint(1, 2)):
        u = rng.choice(units)
        if u["type"] == "deletion":
            continue
        u.setdefault("noise", []).append(
            {"vid": rng.choice(snps), "frac": rng.choice([0.2, 0.3, 0.35, 0.4, 0.5, 0.6])})


def _gen_units(rng, g):
    normal = [a["name"] for a in g["alleles"] if a["kind"] == "normal"]
    dele = [a["name"] for a in g["alleles"] if a["kind"] == "deletion"]
    lf = [a["name"] for a in g["alleles"] if a["kind"] == "lfusion"]
    rf = [a["name"] for a in g["alleles"] if a["kind"] == "rfusion"]
    units = []
    for h in range(2):
        r = rng.random()
        if dele and r < 0.12:
            units.append({"type": "deletion"})
        elif lf and r < 0.24:
            units.append({"type": "lfusion", "allele": lf[0], "parent": rng.choice(normal)})
        elif rf and r < 0.34:
            units.append({"type": "rfusion", "allele": rf[0]})
        else:
            units.append({"type": "normal", "allele": rng.choice(normal)})
    if rng.random() < 0.25 and not all(u["type"] == "deletion" for u in units):
        units.append({"type": "extra", "allele": rng.choice(normal)})
    return units




def gene_opts(rng, small=False):
    o = dict(
        strand=rng.choice("+-"),
        gene_len=rng.choice([420, 480, 600] if small else [420, 480, 600, 720, 900]),
        n_exons=rng.choice([2, 3, 3, 4]),
        n_variants=rng.choice([5, 6, 8]),
        n_major=rng.choice([2, 3, 4]),
        ambiguous=rng.random() < 0.5,
        deletion=rng.random() < 0.7,
        lfusion=rng.random() < 0.35,
        rfusion=rng.random() < 0.3,
        pseudo=rng.random() < 0.85,
        tandem=rng.random() < 0.3,
        cn_subset=rng.random() < 0.2,
        edge_variant=rng.choice([None, None, None, "last", "first", "both"]),
    )
    if not o["pseudo"]:
        o["lfusion"] = o["rfusion"] = False
    return o


def read_opts(rng):
    L = rng.choice([60, 100, 100, 150])
    step = rng.choice([s for s in (3, 4, 5) if L % s == 0] or [5])
    return dict(L=L, step=step)


def one_gene_world(rng, small=False, **force):
    o = gene_opts(rng, small)
    o.update(force)
    if not o["pseudo"]:
        o["lfusion"] = o["rfusion"] = False
    ro = read_opts(rng)
    return W.gen_world(rng, 1, [o], ro, margin=max(200, ro["L"] + 60))


def add_pseudogene_variants(rng, world, units, n=1):
    """Small deletions / substitutions private to a pseudogene copy of a unit."""
    g = world["genes"][0] if len(world["genes"]) == 1 else None
    for gene in world["genes"]:
        if gene["pregions"] is None or gene.get("no_reads"):
            continue
        contig = world["contig"]["seq"]
        us = units.get(gene["name"]) if isinstance(units, dict) else units
        if not us:
            continue
        for _ in range(n):
            u = rng.choice(us)
            if u["type"] == "extra":
                continue
            nm, a, b = rng.choice(gene["pregions"][1:-1])
            if b - a < 30:
                continue
            gpos = rng.randint(a + 8, b - 12)
            if rng.random() < 0.7:
                k = rng.randint(1, 3)
                v = {"kind": "del", "g": gpos, "ref": contig[gpos:gpos + k], "alt": "", "copy": 0}
            else:
                ref = contig[gpos]
                v = {"kind": "snp", "g": gpos, "ref": ref, "alt": rng.choice([x for x in "ACGT" if x != ref]), "copy": 0}
            u.setdefault("pseudo_vars", []).append(v)

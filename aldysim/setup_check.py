#!/venv/bin/python
"""setup_cmd: verify that the offline environment can run aldysim.

Nothing is downloaded.  The only build step is re-creating aldy's own Cython
extensions (aldy/indelpost/*.so) in place when they are missing after a restore.
"""
import os
import subprocess
import sys

REPO = os.environ.get("ALDYSIM_REPO", "/repo")


def main():
    os.makedirs("/verif/evidence", exist_ok=True)
    os.makedirs("/verif/replays", exist_ok=True)
    sys.path.insert(0, REPO)
    try:
        import aldy.indelpost  # noqa
    except Exception as ex:  # rebuild in place, offline
        print(f"setup: aldy.indelpost not importable ({ex!r}); rebuilding in place")
        r = subprocess.run(
            [sys.executable, "setup.py", "build_ext", "--inplace"],
            cwd=REPO,
            stdout=subprocess.PIPE,
            stderr=subprocess.STDOUT,
            text=True,
        )
        if r.returncode != 0:
            print(r.stdout[-4000:])
            print("setup: FAILED to rebuild extensions")
            return 1
        for k in [k for k in sys.modules if k.startswith("aldy")]:
            del sys.modules[k]
        import aldy.indelpost  # noqa
    import ortools.linear_solver.pywraplp  # noqa
    import pysam  # noqa
    import yaml  # noqa

    print("setup: ok")
    return 0


if __name__ == "__main__":
    sys.exit(main())

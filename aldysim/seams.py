"""Seams the simulator owns.  Installed from outside; aldy's sources run unmodified.

* solver seam     - sys.modules["ortools.linear_solver.pywraplp"] replaced by a facade
* stage recorders - aldy.cn.estimate_cn / aldy.major.estimate_major /
                    aldy.minor.estimate_minor rebound to recording wrappers
* yield recorder  - aldy.lpinterface.CBC.solutions wrapped (observation only)
* clock           - time / datetime names in aldy.common, aldy.genotype, aldy.__main__
* stream seam     - see streams.py

All state lives in the module-level `SIM` object, reset per process segment.
Nothing here draws from a PRNG except through sub-seeds stored in the plan, and
nothing reads a real clock.
"""

import hashlib
import importlib
import random
import sys
import types

REAL = importlib.import_module("ortools.linear_solver.pywraplp")
_REAL_SOLUTION_VALUE = REAL.Variable.solution_value

INF = float("inf")


class Sim:
    """Per-segment simulator state."""

    def __init__(self):
        self.reset({})

    def reset(self, cfg):
        self.cfg = cfg
        # --- solver behaviour
        self.adversary = cfg.get("adversary")  # None or int sub-seed
        self.jitter = cfg.get("jitter")  # None or int sub-seed
        # faults: list of {"at": global solve index, "kind": ...}
        self.faults = {f["at"]: f for f in cfg.get("faults", [])}
        self.monitor = cfg.get("monitor", True)
        # workload bound: beyond this many solves (or seconds) the segment is abandoned:
        # every further solve is answered INFEASIBLE at once and the plan is discarded
        self.max_solves = cfg.get("max_solves", 300)
        self.max_wall = cfg.get("max_wall", 60.0)
        self.budget_exceeded = False
        if not hasattr(self, "ever_exceeded"):
            self.ever_exceeded = False  # sticky for the whole process segment (reset() may be called often)
        import time as _t

        self._t0 = _t.process_time()  # CPU time: the bound must not depend on how busy the machine is
        # --- counters / logs
        self.solve_index = 0
        self.events = []
        self.fired = {}
        self.solves = []  # per solve record
        self.models = 0
        self.stage_calls = []  # recorded stage history
        self.yields = []  # per model: list of (status, obj, names)
        self.monitor_failures = []
        self.var_orders = set()
        self.clock = None
        self.stage_hook = None

    def event(self, *ev):
        self.events.append(list(ev))

    def fire(self, kind):
        self.fired[kind] = self.fired.get(kind, 0) + 1


SIM = Sim()


def _digest(obj):
    return hashlib.sha256(repr(obj).encode()).hexdigest()[:16]


class _ObjectiveProxy:
    def __init__(self, owner):
        self._o = owner

    def __getattr__(self, n):
        return getattr(self._o._s.Objective(), n)

    def Value(self):
        return self._o._objective_value()


class SolverProxy:
    """Delegating proxy around the real pywraplp.Solver."""

    def __init__(self, name, kind):
        self._s = REAL.Solver(name, kind)
        self._name = name
        self._pending = None  # (constraint, saved objective) awaiting restore
        self._last_status = None
        self._model_id = SIM.models
        SIM.models += 1
        self._nsolve = 0
        self._seen = {}  # active-binary tuple -> objective (monitor)
        self._last_obj = None
        self._saved_obj = None

    # -- plain delegation -------------------------------------------------
    def __getattr__(self, n):
        return getattr(self._s, n)

    # -- model edits: restore first ----------------------------------------
    def _restore(self):
        if self._pending is None:
            return
        ct, coefs, offset, maxim = self._pending
        obj = self._s.Objective()
        obj.Clear()
        for v, c in coefs:
            obj.SetCoefficient(v, c)
        obj.SetOffset(offset)
        if maxim:
            obj.SetMaximization()
        else:
            obj.SetMinimization()
        if ct is not None:
            ct.Clear()
            ct.SetBounds(-self._s.infinity(), self._s.infinity())
        self._pending = None

    def Add(self, *a, **k):
        self._restore()
        return self._s.Add(*a, **k)

    def Minimize(self, *a, **k):
        self._restore()
        return self._s.Minimize(*a, **k)

    def Maximize(self, *a, **k):
        self._restore()
        return self._s.Maximize(*a, **k)

    def ExportModelAsLpFormat(self, *a, **k):
        self._restore()
        return self._s.ExportModelAsLpFormat(*a, **k)

    def ExportModelAsMpsFormat(self, *a, **k):
        self._restore()
        return self._s.ExportModelAsMpsFormat(*a, **k)

    def BoolVar(self, *a, **k):
        self._restore()
        return self._s.BoolVar(*a, **k)

    def IntVar(self, *a, **k):
        self._restore()
        return self._s.IntVar(*a, **k)

    def NumVar(self, *a, **k):
        self._restore()
        return self._s.NumVar(*a, **k)

    def Constraint(self, *a, **k):
        self._restore()
        return self._s.Constraint(*a, **k)

    # -- objective bookkeeping ----------------------------------------------
    def _objective_terms(self):
        obj = self._s.Objective()
        coefs = []
        for v in self._s.variables():
            c = obj.GetCoefficient(v)
            if c != 0:
                coefs.append((v, c))
        return coefs, obj.offset(), obj.maximization()

    def _objective_value(self):
        if self._pending is None:
            return self._s.Objective().Value()
        _, coefs, offset, _ = self._pending
        return sum(c * _REAL_SOLUTION_VALUE(v) for v, c in coefs) + offset

    def Objective(self):
        return _ObjectiveProxy(self)

    # -- the interesting part -----------------------------------------------
    def Solve(self, *a, **k):
        self._restore()
        if not SIM.budget_exceeded:
            import time as _t

            if SIM.solve_index >= SIM.max_solves or _t.process_time() - SIM._t0 > SIM.max_wall:
                SIM.budget_exceeded = True
                SIM.ever_exceeded = True
        if SIM.budget_exceeded:
            self._real_status = REAL.Solver.INFEASIBLE
            return REAL.Solver.INFEASIBLE
        idx = SIM.solve_index
        SIM.solve_index += 1
        self._nsolve += 1
        if self._nsolve == 1:
            SIM.var_orders.add(_digest([v.name() for v in self._s.variables()]))
        fault = SIM.faults.get(idx)
        status = self._s.Solve(*a, **k)
        real_status = status
        adv = False
        if status == REAL.Solver.OPTIMAL and fault and fault["kind"] == "incumbent":
            # leave a feasible but (generally) non-optimal incumbent and say FEASIBLE
            self._resolve(random.Random(fault.get("seed", idx)), pin=False)
            status = REAL.Solver.FEASIBLE
            SIM.fire("incumbent")
        elif status == REAL.Solver.OPTIMAL and SIM.adversary is not None:
            rng = random.Random(f"{SIM.adversary}:{idx}")
            adv = self._resolve(rng, pin=True)
        if (fault and real_status == REAL.Solver.OPTIMAL
                and fault["kind"] in ("abnormal", "not_solved", "infeasible", "feasible", "unbounded")):
            status = {
                "abnormal": REAL.Solver.ABNORMAL,
                "not_solved": REAL.Solver.NOT_SOLVED,
                "infeasible": REAL.Solver.INFEASIBLE,
                "feasible": REAL.Solver.FEASIBLE,
                "unbounded": REAL.Solver.UNBOUNDED,
            }[fault["kind"]]
            SIM.fire(fault["kind"])
        self._last_status = status
        self._real_status = real_status
        self._verify_fault = bool(fault and fault["kind"] == "verify"
                                  and real_status == REAL.Solver.OPTIMAL)
        rec = {
            "i": idx,
            "model": self._name,
            "mid": self._model_id,
            "k": self._nsolve,
            "real": int(real_status),
            "ret": int(status),
            "fault": fault["kind"] if fault else None,
        }
        if real_status == REAL.Solver.OPTIMAL:
            act = self._active()
            rec["obj"] = round(self._objective_value(), 6)
            rec["act"] = _digest(act)
            rec["nact"] = len(act)
            rec["adv"] = bool(adv)
            if SIM.monitor and status == REAL.Solver.OPTIMAL:
                self._monitor(act, rec["obj"])
        SIM.solves.append(rec)
        SIM.event("solve", idx, self._name, self._nsolve, int(real_status), int(status),
                  rec.get("obj"), rec.get("act"))
        return status

    def VerifySolution(self, *a, **k):
        if getattr(self, "_verify_fault", False):
            SIM.fire("verify")
            return False
        if getattr(self, "_real_status", None) not in (REAL.Solver.OPTIMAL, REAL.Solver.FEASIBLE):
            # nothing to verify (the real library dereferences a missing solution here)
            return False
        return self._s.VerifySolution(*a, **k)

    def _active(self):
        out = []
        for v in self._s.variables():
            if v.integer() and round(_REAL_SOLUTION_VALUE(v)) != 0:
                out.append((v.name(), int(round(_REAL_SOLUTION_VALUE(v)))))
        return tuple(sorted(out))

    def _resolve(self, rng, pin):
        """Re-solve under a random secondary objective over the integer variables.
        pin=True: restricted to the optimal face (objective <= z* + 1e-7)."""
        s = self._s
        before = self._active()
        coefs, offset, maxim = self._objective_terms()
        z = s.Objective().Value()
        ct = None
        if pin:
            if maxim:
                ct = s.Constraint(z - 1e-7 - offset, s.infinity())
            else:
                ct = s.Constraint(-s.infinity(), z + 1e-7 - offset)
            for v, c in coefs:
                ct.SetCoefficient(v, c)
        obj = s.Objective()
        obj.Clear()
        ivars = [v for v in s.variables() if v.integer()]
        for v in ivars:
            obj.SetCoefficient(v, rng.choice([-3.0, -2.0, -1.0, 1.0, 2.0, 3.0]) + rng.random())
        obj.SetMinimization()
        st = s.Solve()
        self._pending = (ct, coefs, offset, maxim)
        if st != REAL.Solver.OPTIMAL:
            # cannot happen for a bounded feasible face; fall back to plain answer
            self._restore()
            st2 = s.Solve()
            SIM.event("adversary-fallback", int(st), int(st2))
            return False
        after = self._active()
        if after != before:
            SIM.fire("adversary_moved" if pin else "incumbent_moved")
        else:
            SIM.fire("adversary_same" if pin else "incumbent_same")
        return after != before

    # -- W3: contract monitor on every model aldy builds ----------------------
    def _monitor(self, act, obj):
        # `act` restricted to 0/1 variables is what aldy's enumeration excludes
        key = tuple(n for n, x in act)
        if key in self._seen and self._nsolve > 1:
            SIM.monitor_failures.append(
                {"clause": "binary assignment returned twice", "model": self._name,
                 "solve": self._nsolve}
            )
        self._seen[key] = obj
        if self._last_obj is not None and obj < self._last_obj - 1e-4:
            SIM.monitor_failures.append(
                {"clause": "objective decreased during enumeration", "model": self._name,
                 "solve": self._nsolve, "prev": self._last_obj, "now": obj}
            )
        self._last_obj = obj


def _jittered_solution_value(self):
    x = _REAL_SOLUTION_VALUE(self)
    if SIM.jitter is not None and self.integer():
        h = int(hashlib.sha256(f"{SIM.jitter}:{self.name()}:{SIM.solve_index}".encode()).hexdigest()[:8], 16)
        d = ((h % 2001) - 1000) / 1000.0 * 1e-7
        SIM.fired["jitter"] = SIM.fired.get("jitter", 0) + 1
        return x + d
    return x


def make_facade():
    """Module object standing in for ortools.linear_solver.pywraplp."""
    m = types.ModuleType("ortools.linear_solver.pywraplp")
    for k in dir(REAL):
        if not k.startswith("__"):
            setattr(m, k, getattr(REAL, k))
    for k in dir(REAL.Solver):
        if k.isupper() or (k[0].isupper() and "_" in k):
            try:
                setattr(SolverProxy, k, getattr(REAL.Solver, k))
            except Exception:
                pass
    m.Solver = SolverProxy
    m.__aldysim_facade__ = True
    return m


_installed = {}


def install_solver_seam():
    if "solver" in _installed:
        return
    sys.modules["ortools.linear_solver.pywraplp"] = make_facade()
    import ortools.linear_solver as ls

    ls.pywraplp = sys.modules["ortools.linear_solver.pywraplp"]
    REAL.Variable.solution_value = _jittered_solution_value
    _installed["solver"] = True


# ---------------------------------------------------------------------------
# stage recorders


def install_stage_recorders():
    if "stages" in _installed:
        return
    import aldy.cn
    import aldy.major
    import aldy.minor

    def wrap(mod, name):
        orig = getattr(mod, name)

        def rec(*a, **k):
            entry = {"stage": name, "args": (a, k), "ret": None, "exc": None,
                     "solve_from": SIM.solve_index}
            SIM.stage_calls.append(entry)
            if SIM.stage_hook is not None:
                SIM.stage_hook(entry)
            try:
                r = orig(*a, **k)
            except BaseException as ex:
                entry["exc"] = ex
                entry["solve_to"] = SIM.solve_index
                raise
            entry["ret"] = r
            try:
                entry["ret_scores"] = [float(x.score) for x in r]
            except Exception:
                entry["ret_scores"] = None
            entry["solve_to"] = SIM.solve_index
            return r

        rec.__wrapped__ = orig
        setattr(mod, name, rec)

    wrap(aldy.cn, "estimate_cn")
    wrap(aldy.major, "estimate_major")
    wrap(aldy.minor, "estimate_minor")
    # inner call of the minor stage: its returns carry the raw model objectives (C10 checks the
    # carry-over of the major score that estimate_minor adds on top)
    wrap(aldy.minor, "solve_minor_model")
    _installed["stages"] = True


def install_yield_recorder():
    """Observe what model.solutions() yields (C05 W3)."""
    if "yields" in _installed:
        return
    import aldy.lpinterface as lpi

    orig = lpi.Gurobi.solutions

    def solutions(self, gap=0, best_obj=None, limit=None, iteration=0, init=None):
        if iteration != 0:
            yield from orig(self, gap, best_obj, limit, iteration, init)
            return
        log = {"model": getattr(getattr(self, "model", None), "_name", "?"),
               "gap": gap, "limit": limit, "items": [], "solve_from": SIM.solve_index}
        SIM.yields.append(log)
        for item in orig(self, gap, best_obj, limit, iteration, init):
            log["items"].append((item[0], item[1], tuple(item[2]), SIM.solve_index - 1))
            yield item
        log["solve_to"] = SIM.solve_index

    lpi.Gurobi.solutions = solutions
    _installed["yields"] = True


# ---------------------------------------------------------------------------
# clock


class FakeTime:
    """Stands in for the `time` module inside aldy.common / aldy.genotype."""

    def __init__(self, plan):
        self.t = plan.get("start", 1.7e9)
        self.t0 = self.t
        self.span = 0.0
        self.jumps = plan.get("jumps", [0.5])
        self.i = 0
        self.reads = 0
        self.backward = 0

    def time(self):
        j = self.jumps[self.i % len(self.jumps)]
        self.i += 1
        self.reads += 1
        if j < 0:
            self.backward += 1
        self.t += j
        self.span += abs(j)
        return self.t

    def __getattr__(self, n):
        import time as _t

        return getattr(_t, n)


class FakeDatetimeModule:
    def __init__(self, ft):
        import datetime as _d

        self._d = _d
        self._ft = ft
        outer = self

        class _DT(_d.datetime):
            @classmethod
            def now(cls, tz=None):
                return _d.datetime(1970, 1, 1) + _d.timedelta(seconds=outer._ft.time())

        self.datetime = _DT

    def __getattr__(self, n):
        return getattr(self._d, n)


def install_clock(plan):
    import aldy.common
    import aldy.genotype

    ft = FakeTime(plan or {})
    aldy.common.time = ft
    aldy.genotype.time = ft
    aldy.genotype.datetime = FakeDatetimeModule(ft)
    if "aldy.__main__" in sys.modules:
        sys.modules["aldy.__main__"].datetime = FakeDatetimeModule(ft)
    SIM.clock = ft
    return ft


def install_all():
    install_solver_seam()
    install_stage_recorders()
    install_yield_recorder()

"""Canonical, hash-order independent renderings of aldy objects (JSON-able)."""

import hashlib
import json


def jdump(x):
    return json.dumps(x, sort_keys=True, separators=(",", ":"), default=str)


def digest(x):
    return hashlib.sha256(jdump(x).encode()).hexdigest()[:20]


def mut(m):
    return [int(m[0]), str(m[1])]


def muts(ms):
    return sorted(mut(m) for m in ms)


def cn_solution(c):
    return {
        "solution": sorted([str(k), int(v)] for k, v in c.solution.items()),
        "score": float(c.score),
        "region_cn": [sorted([str(r), int(v)] for r, v in g.items()) for g in c.region_cn],
    }


def solved_allele(a):
    return {
        "major": str(a.major),
        "minor": str(a.minor),
        "added": muts(a.added),
        "missing": muts(a.missing),
    }


def major_solution(m):
    return {
        "score": float(m.score),
        "solution": sorted(
            ([solved_allele(a), int(n)] for a, n in m.solution.items()), key=jdump
        ),
        "added": muts(m.added),
        "cn": cn_solution(m.cn_solution),
    }


def minor_solution(s):
    d = {
        "score": float(s.score),
        # order of `solution` is meaningful (diplotype indexes into it)
        "solution": [solved_allele(a) for a in s.solution],
        "major": major_solution(s.major_solution),
        "diplotype": [list(x) for x in s.get_diplotype()],
    }
    try:
        d["major_diplotype"] = s.get_major_diplotype()
        d["minor_diplotype"] = s.get_minor_diplotype()
    except Exception as ex:  # pragma: no cover
        d["diplotype_error"] = repr(ex)
    return d


def genotype_result(res):
    """Dict[str, List[MinorSolution]] -> canonical list."""
    return sorted([str(k), [minor_solution(s) for s in v]] for k, v in res.items())


def strip_scores(x, nd=None):
    """Copy of a canonical rendering with every 'score' removed (or rounded)."""
    if isinstance(x, dict):
        return {
            k: (strip_scores(v, nd) if k != "score" else (None if nd is None else round(v, nd)))
            for k, v in x.items()
        }
    if isinstance(x, list):
        return [strip_scores(v, nd) for v in x]
    return x


def scores(x, out=None, path=""):
    out = [] if out is None else out
    if isinstance(x, dict):
        for k in sorted(x):
            if k == "score":
                out.append((path, x[k]))
            else:
                scores(x[k], out, path + "/" + k)
    elif isinstance(x, list):
        for i, v in enumerate(x):
            scores(v, out, f"{path}/{i}")
    return out


def gene(g):
    """Deep rendering of a Gene (catalogue, structures, variant table, regions)."""
    return {
        "name": g.name,
        "genome": g.genome,
        "chr": g.chr,
        "strand": g.strand,
        "seq": digest(g.seq),
        "lookup": [list(g._lookup_range), digest(g._lookup_seq)],
        "maps": [digest(sorted(g.chr_to_ref.items())), digest(sorted(g.ref_to_chr.items()))],
        "regions": [[[r, list(v)] for r, v in d.items()] for d in g.regions],
        "unique_regions": list(g.unique_regions),
        "pseudogenes": list(g.pseudogenes),
        "exons": [list(e) for e in g.exons],
        "do_copy_number": bool(g.do_copy_number),
        "common_tandems": [list(t) for t in g.common_tandems],
        "mutations": sorted([mut(k), [str(x) for x in v]] for k, v in g.mutations.items()),
        "random_mutations": muts(g.random_mutations),
        "removed": sorted([str(k), str(v)] for k, v in g.removed.items()),
        "alleles": [
            [
                str(an),
                {
                    "name": a.name,
                    "cn_config": a.cn_config,
                    "func_muts": muts(a.func_muts),
                    "minors": [
                        [
                            str(mn),
                            {
                                "name": mi.name,
                                "alt_name": mi.alt_name,
                                "neutral_muts": muts(mi.neutral_muts),
                                "activity": mi.activity,
                                "evidence": mi.evidence,
                                "pharmvar": mi.pharmvar,
                            },
                        ]
                        for mn, mi in a.minors.items()
                    ],
                },
            ]
            for an, a in g.alleles.items()
        ],
        "cn_configs": [
            [
                str(cn),
                {
                    "kind": str(c.kind),
                    "cn": [[[r, int(v)] for r, v in d.items()] for d in c.cn],
                    "alleles": sorted(c.alleles),
                    "description": c.description,
                },
            ]
            for cn, c in g.cn_configs.items()
        ],
    }


def coverage(c, full=False):
    """Rendering of a Coverage (the sample evidence)."""
    cov = []
    for pos in sorted(c._coverage):
        ops = c._coverage[pos]
        cov.append([int(pos), sorted([str(op), sorted([float(a), float(b)] for a, b in q)] for op, q in ops.items())])
    d = {
        "coverage": cov if full else digest(cov),
        "n_pos": len(cov),
        "indels": sorted([mut(k), [float(x) for x in v]] for k, v in (c._indels or {}).items()),
        "indels_none": c._indels is None,
        "cnv": digest(sorted((int(k), int(v)) for k, v in c._cnv_coverage.items() if v)),
        "region_coverage": sorted([[int(g), str(r)], float(v)] for (g, r), v in c._region_coverage.items()),
    }
    return d


def first_diff(a, b, path=""):
    """Path of the first difference between two JSON-like values (or None)."""
    if type(a) != type(b):
        return f"{path}: type {type(a).__name__} != {type(b).__name__}"
    if isinstance(a, dict):
        for k in sorted(set(a) | set(b)):
            if k not in a:
                return f"{path}/{k}: missing left"
            if k not in b:
                return f"{path}/{k}: missing right"
            d = first_diff(a[k], b[k], f"{path}/{k}")
            if d:
                return d
        return None
    if isinstance(a, list):
        if len(a) != len(b):
            return f"{path}: len {len(a)} != {len(b)}"
        for i, (x, y) in enumerate(zip(a, b)):
            d = first_diff(x, y, f"{path}/{i}")
            if d:
                return d
        return None
    if a != b:
        return f"{path}: {a!r} != {b!r}"
    return None

"""Driver: seeded plan generation, execution, judging, confirmation, minimisation,
replay files, known findings, evidence."""

import concurrent.futures as cf
import copy
import hashlib
import json
import os
import shutil
import subprocess
import sys
import threading
import time
import traceback

from . import canon
from .pool import HarnessError, ZygotePool, run_cold, scratch_root

VERIF = os.path.dirname(os.path.dirname(os.path.abspath(__file__)))
KNOWN = os.path.join(VERIF, "known_findings.json")


def repo_state(repo="/repo"):
    try:
        head = subprocess.run(["git", "-C", repo, "rev-parse", "HEAD"], capture_output=True, text=True).stdout.strip()
        diff = subprocess.run(["git", "-C", repo, "diff", "HEAD"], capture_output=True, text=True).stdout
        return {"head": head, "diff_sha": hashlib.sha256(diff.encode()).hexdigest()[:16] if diff else None}
    except Exception:
        return {"head": None, "diff_sha": None}


class Runner:
    """Executes plans.  `cold=True` runs every segment in a new interpreter."""

    def __init__(self, check, workers=16, cold=False, repo=None):
        self.check = check
        self.cold = cold
        self.repo = repo or os.environ.get("ALDYSIM_REPO")
        self.pool = None if cold else ZygotePool(max_procs=workers + 14, repo=self.repo)
        import tempfile

        self.root = tempfile.mkdtemp(prefix="r", dir=scratch_root())
        self.counter = 0
        self.lock = threading.Lock()
        self.memo = {}
        self.memo_lock = threading.Lock()
        self.segments_run = 0

    def new_dir(self, tag="plan"):
        with self.lock:
            self.counter += 1
            d = os.path.join(self.root, f"{tag}-{self.counter}")
        os.makedirs(d, exist_ok=True)
        return d

    def segment(self, seg, timeout=None):
        timeout = timeout or getattr(self.check, "SEGMENT_TIMEOUT", 120)
        with self.lock:
            self.segments_run += 1
        if self.cold:
            return run_cold(self.check.ID, seg, timeout=max(timeout, 300), repo=self.repo)
        return self.pool.run(self.check.ID, seg, timeout=timeout,
                             child_log=os.environ.get("ALDYSIM_CHILD_LOG"))

    def memoised(self, key, fn):
        """Run fn() once per key (per Runner); concurrent callers wait."""
        with self.memo_lock:
            ent = self.memo.get(key)
            if ent is None:
                ent = self.memo[key] = {"ev": threading.Event(), "val": None, "exc": None}
                owner = True
            else:
                owner = False
        if owner:
            try:
                ent["val"] = fn()
            except BaseException as ex:
                ent["exc"] = ex
            ent["ev"].set()
        else:
            ent["ev"].wait()
        if ent["exc"] is not None:
            raise ent["exc"]
        return ent["val"]

    def run_plan(self, plan):
        d = self.new_dir()
        try:
            out = self.check.execute(plan, self, d)
        finally:
            shutil.rmtree(d, ignore_errors=True)
        return out

    def close(self):
        if self.pool:
            self.pool.close()
        shutil.rmtree(self.root, ignore_errors=True)


def outcome_digest(outcome):
    return canon.digest(outcome)


# ---------------------------------------------------------------------------
# known findings


def load_known(prop):
    if not os.path.exists(KNOWN):
        return []
    data = json.load(open(KNOWN))
    return [f for f in data.get("findings", []) if f.get("property") == prop]


def match_known(known, sig):
    for f in known:
        m = f.get("match", {})
        if all(sig.get(k) == v for k, v in m.items()):
            return f
    return None


# ---------------------------------------------------------------------------
# minimisation


def minimise(check, runner, plan, viol, max_runs=60, deadline=None):
    """Greedy shrinking: accept a candidate iff the same clause fails."""
    clause = viol["clause"]
    sig = check.signature(viol)
    best = plan
    runs = 0
    progress = True
    while progress and runs < max_runs:
        progress = False
        for cand in check.shrink(best):
            if runs >= max_runs or (deadline and time.monotonic() > deadline):
                return best, runs
            runs += 1
            try:
                out = runner.run_plan(cand)
                vs = check.judge(cand, out)
            except HarnessError:
                continue
            except Exception:
                continue
            if any(v["clause"] == clause and check.signature(v) == sig for v in vs):
                best = cand
                progress = True
                break
    return best, runs


# ---------------------------------------------------------------------------
# main loop


def run_check(check, tier, seed, budget_s=None, workers=None, nplans=None, selftest=True):
    t0 = time.monotonic()
    workers = workers or int(os.environ.get("ALDYSIM_WORKERS", "16"))
    cfg = check.TIERS[tier]
    budget_s = budget_s or float(os.environ.get("VERIF_BUDGET_S", cfg["budget_s"]))
    nplans = nplans or cfg["plans"]
    runner = Runner(check, workers=workers)
    known = load_known(check.ID)
    acc = check.new_stats()
    violations = []
    known_hits = {}
    harness = []
    timed_out = []
    discarded = []
    evaluations = 0
    samples = []
    import random

    def one(i):
        rng = random.Random(f"{check.ID}:{seed}:{i}")
        plan = check.gen_plan(rng, tier, i, seed)
        out = runner.run_plan(plan)
        vs = check.judge(plan, out)
        return i, plan, out, vs

    stop = threading.Event()
    results = {}
    # determinism sweep (tools/determinism_sweep.py): one line per plan, "<index> <digest of the outcome>"
    digests = {} if os.environ.get("ALDYSIM_DIGEST_LOG") else None
    try:
        with cf.ThreadPoolExecutor(max_workers=workers) as ex:
            futs = {}
            it = iter(range(nplans))
            pending = set()

            def submit_more():
                while len(pending) < workers * 2 and not stop.is_set():
                    try:
                        i = next(it)
                    except StopIteration:
                        return
                    f = ex.submit(one, i)
                    futs[f] = i
                    pending.add(f)

            submit_more()
            while pending:
                done, _ = cf.wait(pending, timeout=1.0, return_when=cf.FIRST_COMPLETED)
                for f in done:
                    pending.discard(f)
                    i = futs.pop(f)
                    try:
                        _, plan, out, vs = f.result()
                    except HarnessError as he:
                        if he.kind == "discard":
                            discarded.append(i)
                        elif he.kind == "timeout":
                            # a plan that needs more than its CPU-time bound is not judged (counted below)
                            timed_out.append(i)
                        else:
                            harness.append({"plan": i, "kind": he.kind, "detail": he.detail[-1500:]})
                        continue
                    except Exception:
                        harness.append({"plan": i, "kind": "driver", "detail": traceback.format_exc()[-1500:]})
                        continue
                    evaluations += check.count_evaluations(plan, out)
                    if digests is not None:
                        digests[i] = outcome_digest(out)
                    check.update_stats(acc, plan, out)
                    if len(samples) < 3:
                        samples.append(check.sample_view(plan, out))
                    for v in vs:
                        results.setdefault(i, (plan, out, []))[2].append(v)
                if time.monotonic() - t0 > budget_s:
                    stop.set()
                if len(harness) > 5:
                    stop.set()
                submit_more()
        # ---- violations: classify, confirm, minimise, write replay
        unknown = []
        for i in sorted(results):
            plan, out, vs = results[i]
            for v in vs:
                sig = check.signature(v)
                kf = match_known(known, sig)
                if kf is not None:
                    known_hits.setdefault(kf["id"], {"finding": kf, "n": 0})["n"] += 1
                else:
                    unknown.append((i, plan, out, v))
        reported = set()
        for i, plan, out, v in unknown:
            sig = canon.digest(check.signature(v))
            if sig in reported:
                continue
            reported.add(sig)
            if len(reported) > 5:
                break
            # confirm in cold interpreters
            try:
                cold = Runner(check, cold=True)
                try:
                    out2 = cold.run_plan(plan)
                    vs2 = check.judge(plan, out2)
                finally:
                    cold.close()
            except HarnessError as he:
                harness.append({"plan": i, "kind": "confirm-" + he.kind, "detail": he.detail[-1500:]})
                continue
            same = [x for x in vs2 if x["clause"] == v["clause"] and check.signature(x) == check.signature(v)]
            if not same:
                harness.append({"plan": i, "kind": "nondeterminism",
                                "detail": f"violation {v['clause']} did not reproduce in a cold interpreter"})
                continue
            deadline = time.monotonic() + (60 if tier == "quick" else 300)
            try:
                small, nruns = minimise(check, runner, plan, v, deadline=deadline)
                out3 = runner.run_plan(small)
                vs3 = [x for x in check.judge(small, out3) if x["clause"] == v["clause"]]
            except HarnessError as he:
                harness.append({"plan": i, "kind": "minimise-" + he.kind, "detail": he.detail[-1500:]})
                small, nruns, vs3 = plan, 0, []
            if not vs3:
                small, out3, vs3 = plan, out, [v]
            path = write_replay(check, seed, tier, small, out3, vs3[0], nruns, i)
            violations.append({"clause": v["clause"], "replay": path, "detail": vs3[0].get("detail")})
            print(f"VIOLATION property={check.ID} replay={path}")
            print(f"  clause: {v['clause']}")
            print(f"  detail: {json.dumps(vs3[0].get('detail'), default=str)[:1500]}")
        # ---- determinism self-test
        det = None
        if selftest:
            det = determinism_selftest(check, runner, seed, tier, cfg.get("det_plans", 2))
            if det["mismatches"]:
                harness.append({"plan": -1, "kind": "nondeterminism", "detail": json.dumps(det)[:1500]})
    finally:
        spawned = runner.pool.spawned if runner.pool else 0
        segs = runner.segments_run
        runner.close()
    wall = time.monotonic() - t0
    if digests is not None:
        with open(os.environ["ALDYSIM_DIGEST_LOG"], "w") as f:
            for i in sorted(digests):
                f.write(f"{i} {digests[i]}\n")
    for k, h in sorted(known_hits.items()):
        print(f"KNOWN-FINDING: property={check.ID} {h['finding']['what']} (seen {h['n']}x)")
    ev = check.evidence(acc)
    cov = ev["coverage"]
    cov["evaluations"] = int(evaluations)
    cov.setdefault("samples", samples or [{"note": "no plan completed"}])
    cov["runs_per_hour"] = round(acc.get("plans", 0) / max(wall, 1e-9) * 3600)
    cov["segments_run"] = segs
    cov["zygotes_spawned"] = spawned
    cov["harness_problems"] = harness[:5]
    cov["plans_discarded_for_workload_bound"] = len(discarded)
    cov["plans_discarded_for_cpu_time_bound"] = len(timed_out)
    if len(timed_out) > max(5, 0.02 * (acc.get("plans", 0) + len(timed_out))):
        harness.append({"plan": timed_out[0], "kind": "timeout",
                        "detail": f"{len(timed_out)} plans exceeded their CPU-time bound (plans {timed_out[:6]})"})
    if len(discarded) > max(3, 0.2 * (acc.get("plans", 0) + len(discarded))):
        harness.append({"plan": -1, "kind": "too-many-discards",
                        "detail": f"{len(discarded)} plans exceeded the workload bound"})
    cov["determinism_selftest"] = det
    cov["known_findings_seen"] = {k: h["n"] for k, h in known_hits.items()}
    cov["budget_exhausted"] = stop.is_set()
    doc = {
        "property_id": check.ID,
        "tier": tier,
        "seed": int(seed),
        "level": check.LEVEL,
        "coverage": cov,
        "assumptions": ev.get("assumptions", []),
        "wall_s": round(wall, 2),
        "violations": len(violations),
    }
    if not os.environ.get("ALDYSIM_NO_EVIDENCE"):
        os.makedirs(os.path.join(VERIF, "evidence"), exist_ok=True)
        with open(os.path.join(VERIF, "evidence", f"{check.ID}.json"), "w") as f:
            json.dump(doc, f, indent=1, default=str)
    print(f"{check.ID} tier={tier} seed={seed} plans={acc.get('plans', 0)} evaluations={evaluations} "
          f"violations={len(violations)} known={sum(h['n'] for h in known_hits.values())} "
          f"harness={len(harness)} wall={wall:.1f}s")
    for h in harness[:5]:
        print(f"HARNESS-{h['kind'].upper()}: plan={h['plan']} {h['detail'][-800:]}")
    if violations:
        return 1
    if harness:
        return 2
    return 0


def write_replay(check, seed, tier, plan, outcome, viol, shrink_runs, plan_index):
    rdir = os.environ.get("ALDYSIM_REPLAY_DIR") or os.path.join(VERIF, "replays")
    os.makedirs(rdir, exist_ok=True)
    doc = {
        "property": check.ID,
        "seed": seed,
        "tier": tier,
        "plan_index": plan_index,
        "plan": plan,
        "violation": viol,
        "expected_digest": outcome_digest(outcome),
        "shrink_runs": shrink_runs,
        "repo": repo_state(),
    }
    h = canon.digest([plan, viol["clause"]])[:10]
    path = os.path.join(rdir, f"{check.ID}-{seed}-{h}.json")
    with open(path, "w") as f:
        json.dump(doc, f, indent=1, default=str)
    return path


def determinism_selftest(check, runner, seed, tier, n):
    """Same plan twice: zygote fork vs cold interpreter; digests must agree."""
    import random

    mism = []
    done = 0
    cold = Runner(check, cold=True)
    try:
        for k in range(n):
            rng = random.Random(f"{check.ID}:{seed}:det:{k}")
            plan = check.gen_plan(rng, tier, 10_000_000 + k, seed)
            try:
                a = outcome_digest(runner.run_plan(plan))
                b = outcome_digest(cold.run_plan(plan))
            except HarnessError as he:
                if he.kind in ("discard", "timeout"):
                    continue  # the plan exceeded a workload / CPU-time bound: not executed twice, not compared
                mism.append({"k": k, "harness": he.kind, "detail": he.detail[-500:]})
                continue
            done += 1
            if a != b:
                mism.append({"k": k, "fork": a, "cold": b})
    finally:
        cold.close()
    return {"plans": done, "mismatches": mism}


def replay(path):
    from .checks import get_check

    doc = json.load(open(path))
    check = get_check(doc["property"])
    runner = Runner(check, cold=True)
    try:
        out = runner.run_plan(doc["plan"])
        vs = check.judge(doc["plan"], out)
    finally:
        runner.close()
    want = doc["violation"]["clause"]
    same = [v for v in vs if v["clause"] == want]
    dg = outcome_digest(out)
    print(f"replay {path}")
    print(f"  digest: {dg} (expected {doc['expected_digest']}) {'same' if dg == doc['expected_digest'] else 'DIFFERENT'}")
    if same:
        print(f"VIOLATION property={doc['property']} replay={path}")
        print(f"  clause: {want}")
        print(f"  detail: {json.dumps(same[0].get('detail'), default=str)[:1500]}")
        return 1
    print(f"  clause '{want}' did not reproduce; violations now: {[v['clause'] for v in vs]}")
    return 0

"""Stage-level workloads: genes (toy, generated, shipped) and evidence tables."""

import collections
import os
import random

from . import workload as WL
from . import world as W


def gen_stage_world(rng, **force):
    """A generated database for stage-level work (text only, no reads)."""
    o = dict(gene_len=rng.choice([420, 600]), strand=rng.choice("+-"), n_exons=rng.choice([2, 3, 4]),
             n_variants=rng.choice([5, 6, 7, 8]), n_major=rng.choice([2, 2, 3, 4]),
             kinds=["snp", "snp", "snp", "del", "ins", "mnp"], deletion=rng.random() < 0.7,
             lfusion=rng.random() < 0.4, rfusion=rng.random() < 0.4, pseudo=rng.random() < 0.85,
             ambiguous=rng.random() < 0.5, cn_subset=rng.random() < 0.3,
             multiallelic=rng.random() < 0.5, orphan_core=rng.random() < 0.5)
    if rng.random() < 0.3:
        # two catalogued variants a few bases apart or at one position (an insertion and a substitution on
        # its anchor base are different variants of one database position)
        o["close_pair"] = rng.choice(["snp_ins_anchor", "snp_ins_anchor", "snp_after_ins", "ins_del", "snp_before_del",
                                      "snp_snp", "ins_ins"])
        o["close_func"] = rng.random() < 0.7  # both of them core variants
    o.update(force)
    if not o["pseudo"]:
        o["lfusion"] = o["rfusion"] = False
    return W.gen_world(rng, 1, [o], dict(L=100, step=5))


def load_gene(spec):
    """spec: {"kind": "toy"} | {"kind": "shipped", "name": "CYP2A6"} | {"kind": "world", "world": {...}}"""
    from aldy.common import script_path
    from aldy.gene import Gene

    if spec["kind"] == "toy":
        return Gene(script_path("aldy.tests.resources/toy.yml"), genome=spec.get("genome", "hg19"))
    if spec["kind"] == "shipped":
        return Gene(script_path(f"aldy.resources.genes/{spec['name'].lower()}.yml"), genome=spec.get("genome", "hg19"))
    w = spec["world"]
    g = w["genes"][0]
    return Gene(None, name=g["name"], yml=W.gene_yaml(w, g), genome=spec.get("genome", "hg19"))


def allele_muts(gene, major, minor=None, added=(), missing=()):
    s = set(gene.alleles[major].func_muts)
    if minor:
        s |= set(gene.alleles[major].minors[minor].neutral_muts)
    s |= set(added)
    s -= set(missing)
    return s


def planted_table(gene, planted, depth, rng=None, noise=0.0, extra_noise=0):
    """Read-count table for a multiset of planted alleles.
    planted: list of (major, minor-or-None).  Returns {pos: {op: count}}."""
    from aldy.gene import Mutation

    sites = collections.defaultdict(list)
    for (pos, op) in gene.mutations:
        sites[pos].append(op)
    table = collections.defaultdict(dict)
    for pos, ops in sites.items():
        have = [e for e in planted if gene.has_coverage(e[0], pos)]
        nonref = 0
        for op in ops:
            carriers = sum(1 for e in have if Mutation(pos, op) in allele_muts(gene, *e))
            c = depth * carriers
            if rng is not None and noise and c:
                c = max(0, int(round(c * (1 + rng.uniform(-noise, noise)))))
            if c:
                table[pos][op] = c
            if not op.startswith("ins"):
                nonref += carriers
        r = depth * max(0, len(have) - nonref)
        if rng is not None and noise and r:
            r = max(0, int(round(r * (1 + rng.uniform(-noise, noise)))))
        table[pos]["_"] = r
    if rng is not None and extra_noise:
        keys = sorted(gene.mutations)
        for _ in range(extra_noise):
            pos, op = rng.choice(keys)
            table[pos][op] = table[pos].get(op, 0) + rng.randint(1, depth)
    return {int(p): {o: int(c) for o, c in d.items()} for p, d in table.items()}


def realigned_table(gene, table, k):
    """Per-indel (not supporting, supporting) counts as the realigner would deliver them, at k times the
    pile-up depth (the realigner sees its own set of reads): the fraction of supporting reads is unchanged."""
    out = {}
    for (pos, op) in gene.mutations:
        if op[:3] not in ("ins", "del"):
            continue
        d = table.get(pos) or {}
        on = int(d.get(op, 0))
        depth = sum(int(c) for o, c in d.items() if not o.startswith("ins"))
        if on <= 0 or depth < on:
            continue
        out[pos, op] = [(depth - on) * k, on * k]
    return out


def make_coverage(gene, table, profile=None, phases=None, indels=None):
    from aldy.coverage import Coverage
    from aldy.profile import Profile
    from aldy.sam import Sample

    profile = profile or Profile("test")
    cov = collections.defaultdict(dict)
    for pos, d in table.items():
        for op, c in d.items():
            cov[int(pos)][op] = [(60, 60)] * int(c)
    c = Coverage(gene, profile, None, cov, dict(indels) if indels else None, {})
    if phases is not None:
        c.sam = Sample.__new__(Sample)
        c.sam.phases = {r: {int(k): v for k, v in ph.items()} for r, ph in phases.items()}
    return c


def random_cn(rng, gene, max_copies=3):
    """A random admissible structure: list of configuration names."""
    names = list(gene.cn_configs)
    dele = gene.deletion_allele()
    fus = [n for n in names if n != "1" and n != dele]
    out = []
    k = rng.choice([1, 2, 2, 2, 3][: max_copies + 2])
    for _ in range(min(2, k)):
        r = rng.random()
        if fus and r < 0.25:
            out.append(rng.choice(fus))
        else:
            out.append("1")
    out += ["1"] * max(0, k - 2)
    return out


def random_planted(rng, gene, cn):
    """Alleles matching a structure: list of (major, minor)."""
    out = []
    twin = rng.random() < 0.3
    for conf in cn:
        cands = [a for a in gene.alleles.values() if a.cn_config == conf]
        if not cands:
            return None
        same = [e for e in out if gene.alleles[e[0]].cn_config == conf]
        if twin and same:
            out.append(same[0])  # two copies of the very same minor allele
            continue
        a = rng.choice(cands)
        # alleles with two core variants at one database position (insertion + substitution on its anchor)
        # are rare in a catalogue: plant them more often than chance would
        twosite = [x for x in cands if len({m.pos for m in x.func_muts}) < len(x.func_muts)]
        if twosite and rng.random() < 0.5:
            a = rng.choice(twosite)
        out.append((a.name, rng.choice(sorted(a.minors))))
    return out

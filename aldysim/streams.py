"""Alignment-stream seam: `aldy.sam.pysam` / `aldy.profile.pysam` are rebound to a
facade module whose AlignmentFile is a Python subclass of the real one.  The
subclass owns *delivery*: order of the records a fetch() yields, whether an index
is visible (indexed fetch vs full scan), records lost by region, duplicates, and a
read error at the k-th record.  indelpost (called from Sample._realign_indels) gets
untouched delivery.

Configuration: SIM.cfg["stream"] = {
    "shuffle": seed | None,        # permute the records of every fetch
    "hide_index": bool,            # check_index() raises like a SAM file; fetch() = full scan
    "drop": [[start, end], ...],   # drop records overlapping these reference intervals
    "dup": k,                      # deliver every record k times
    "error_at": k, "error": "OSError" | "ValueError", "error_open": n  # n-th AlignmentFile opened
}
"""

import os
import random
import types

import pysam as REAL_PYSAM

from .seams import SIM

_state = {"opens": 0, "in_indelpost": False, "per_file": {}}


class SimAlignmentFile(REAL_PYSAM.AlignmentFile):
    def __init__(self, *a, **k):
        _state["opens"] += 1
        fn = self.filename
        fn = os.path.basename(fn.decode() if isinstance(fn, bytes) else str(fn))
        # n-th time this file is opened (1 = detect_genome, 2 = read loading, 3 = neutral region)
        _state["per_file"][fn] = _state["per_file"].get(fn, 0) + 1
        self._sim_open = _state["per_file"][fn]

    def _cfg(self):
        if _state["in_indelpost"]:
            return None
        cfg = SIM.cfg.get("stream")
        if cfg and cfg.get("only_file"):
            fn = self.filename
            fn = fn.decode() if isinstance(fn, bytes) else str(fn)
            if not fn.endswith(cfg["only_file"]):
                return None
        return cfg

    def check_index(self):
        cfg = self._cfg()
        if cfg and cfg.get("hide_index"):
            raise AttributeError("no index (simulated)")
        return REAL_PYSAM.AlignmentFile.check_index(self)

    def fetch(self, *a, **k):
        cfg = self._cfg()
        if not cfg:
            return REAL_PYSAM.AlignmentFile.fetch(self, *a, **k)
        if cfg.get("hide_index"):
            # full scan from the first record (indelpost may have moved the file position)
            REAL_PYSAM.AlignmentFile.reset(self)
            it = REAL_PYSAM.AlignmentFile.fetch(self, until_eof=True)
        else:
            it = REAL_PYSAM.AlignmentFile.fetch(self, *a, **k)
        return self._deliver(it, cfg)

    def _deliver(self, it, cfg):
        recs = list(it)
        n0 = len(recs)
        if cfg.get("drop"):
            keep = []
            for r in recs:
                s, e = r.reference_start, r.reference_end
                if s is not None and e is not None and any(s < b and a < e for a, b in cfg["drop"]):
                    SIM.fired["records_dropped"] = SIM.fired.get("records_dropped", 0) + 1
                    continue
                keep.append(r)
            recs = keep
        if cfg.get("dup", 1) > 1:
            recs = [r for r in recs for _ in range(cfg["dup"])]
            SIM.fire("records_duplicated")
        if cfg.get("shuffle") is not None:
            random.Random(f"{cfg['shuffle']}:{self._sim_open}").shuffle(recs)
            SIM.fire("delivery_permuted")
        SIM.event("fetch", self._sim_open, n0, len(recs))
        err_at = cfg.get("error_at")
        for i, r in enumerate(recs):
            if err_at is not None and i == err_at and cfg.get("error_open", self._sim_open) == self._sim_open:
                SIM.fire("stream_error")
                raise {"OSError": OSError, "ValueError": ValueError}[cfg.get("error", "OSError")](
                    "simulated read error: truncated file")
            yield r
        if err_at is not None and err_at >= len(recs) and cfg.get("error_open", self._sim_open) == self._sim_open \
                and cfg.get("error_at_end"):
            SIM.fire("stream_error")
            raise OSError("simulated read error at end of stream")


def make_facade():
    m = types.ModuleType("pysam")
    for k in dir(REAL_PYSAM):
        if not k.startswith("__"):
            try:
                setattr(m, k, getattr(REAL_PYSAM, k))
            except Exception:
                pass
    m.AlignmentFile = SimAlignmentFile
    m.__aldysim_facade__ = True
    return m


_installed = {}


def install_stream_seam():
    if _installed:
        return
    import aldy.profile
    import aldy.sam

    fac = make_facade()
    aldy.sam.pysam = fac
    aldy.profile.pysam = fac
    orig = aldy.sam.Sample._realign_indels

    def _realign_indels(self, *a, **k):
        _state["in_indelpost"] = True
        try:
            return orig(self, *a, **k)
        finally:
            _state["in_indelpost"] = False
            # observation only: the (not supporting, supporting) counts the realigner left per catalogued indel
            try:
                _state.setdefault("realigned", []).append(
                    {f"{p}:{o}": [int(v[0]), int(v[1])] for (p, o), v in self._indel_sites.items()})
            except Exception:
                pass

    aldy.sam.Sample._realign_indels = _realign_indels
    _installed["ok"] = True


def reset():
    _state["opens"] = 0
    _state["in_indelpost"] = False
    _state["per_file"] = {}
    _state["realigned"] = []

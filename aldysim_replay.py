#!/venv/bin/python
"""Replay a violation file in cold interpreters: aldysim_replay.py <path>"""
import os
import sys

sys.path.insert(0, os.path.dirname(os.path.abspath(__file__)))
import warnings  # noqa: E402

warnings.filterwarnings("ignore")
from aldysim import core  # noqa: E402

if __name__ == "__main__":
    sys.exit(core.replay(sys.argv[1]))
